package main

// Bounded run-twice determinism check (C07): every target is generated repeatedly in one process
// from the repository's fixture sources and from a scratch module whose types come from several
// packages; all repetitions must be byte-identical. Go randomises map iteration on every loop, so
// repetitions within one process explore different orders. Role: always-run bounded coverage of the
// loops that are only *argued* order-independent, and replay for refuted obligations.

import (
	"fmt"
	"os"
	"path/filepath"
	"sort"
	"strings"
	"testing"

	"github.com/benoitkugler/gomacro/analysis"
	"github.com/benoitkugler/gomacro/analysis/httpapi"
	"github.com/benoitkugler/gomacro/generator"
	"github.com/benoitkugler/gomacro/generator/dart"
	"github.com/benoitkugler/gomacro/generator/go/gounions"
	"github.com/benoitkugler/gomacro/generator/go/randdata"
	"github.com/benoitkugler/gomacro/generator/go/sqlcrud"
	"github.com/benoitkugler/gomacro/generator/sql"
	"github.com/benoitkugler/gomacro/generator/typescript"
)

func govcGenerateAll(t *testing.T, file string, withSQL, withAPI bool) map[string]string {
	pkg, err := analysis.LoadSource(file)
	if err != nil {
		t.Fatal(err)
	}
	out := map[string]string{}
	safe := func(name string, f func() string) {
		defer func() {
			if r := recover(); r != nil {
				out[name] = fmt.Sprintf("<diagnostic: %v>", r)
			}
		}()
		out[name] = f()
	}
	ana := analysis.NewAnalysisFromFile(pkg, file)
	safe("go/unions", func() string { return generator.WriteDeclarations(gounions.Generate(ana)) })
	safe("go/randdata", func() string { return generator.WriteDeclarations(randdata.Generate(ana)) })
	safe("typescript/types", func() string { return generator.WriteDeclarations(typescript.Generate(ana)) })
	if withSQL {
		safe("go/sqlcrud", func() string { return generator.WriteDeclarations(sqlcrud.Generate(ana, true)) })
		safe("sql", func() string { return generator.WriteDeclarations(sql.Generate(ana)) })
	}
	if withAPI {
		abs, _ := filepath.Abs(file)
		safe("typescript/api", func() string { return typescript.GenerateAxios(httpapi.ParseEcho(ana.Pkg, abs, "")) })
	}
	safe("dart", func() string {
		dir := filepath.Dir(file)
		var parts []string
		for _, o := range dart.Generate(dir, []*analysis.Analysis{ana}) {
			parts = append(parts, "=== "+o.Filename+"\n"+generator.WriteDeclarations(o.Content))
		}
		sort.Strings(parts) // each Output goes to its own file: the order of the list is not observable
		return strings.Join(parts, "\n")
	})
	lk := analysis.NewLinker(filepath.Dir(file), []*analysis.Analysis{ana})
	out["linker/files"] = strings.Join(lk.OutputFiles(), ",")
	return out
}

func TestGovcHarness_Determinism(t *testing.T) {
	os.Setenv("GOFLAGS", "-mod=mod")
	os.Setenv("GOPROXY", "off")
	root, err := os.MkdirTemp("/var/tmp", "govc-c07-")
	if err != nil {
		t.Fatal(err)
	}
	defer os.RemoveAll(root)
	w := func(rel, content string) string {
		p := filepath.Join(root, rel)
		os.MkdirAll(filepath.Dir(p), 0o755)
		os.WriteFile(p, []byte(content), 0o644)
		return p
	}
	w("go.mod", "module example.com/org/m\n\ngo 1.21\n")
	w("a/a.go", "package a\n\ntype IdA int64\n\ntype KA int\n\nconst (\n\tKA0 KA = iota\n\tKA1\n)\n\ntype SA struct{ X int; K KA }\n")
	w("b/b.go", "package b\n\ntype IdB int64\n\ntype KB string\n\nconst (\n\tKB0 KB = \"x\"\n\tKB1 KB = \"y\"\n)\n\ntype SB struct{ Y string; K KB }\n")
	w("a/kinds/k.go", "package kinds\n\ntype Kind int\n\nconst (\n\tKa0 Kind = iota\n\tKa1\n)\n")
	w("b/kinds/k.go", "package kinds\n\ntype Kind string\n\nconst (\n\tKb0 Kind = \"u\"\n\tKb1 Kind = \"v\"\n)\n")
	w("c/c.go", "package c\n\nimport \"example.com/org/m/a\"\n\ntype SC struct{ A a.SA; L []a.KA }\n")
	multi := w("root.go", `package m

import (
	"time"

	"example.com/org/m/a"
	"example.com/org/m/b"
	"example.com/org/m/c"
	ak "example.com/org/m/a/kinds"
	bk "example.com/org/m/b/kinds"
)

type Shape interface{ isShape() }
type Animal interface{ isAnimal() }

type Circle struct{ R int }
type Dog struct{ Name string }
type Both struct{ N int }

func (Circle) isShape() {}
func (Dog) isAnimal()   {}
func (Both) isShape()   {}
func (Both) isAnimal()  {}

type Table1 struct {
	Id   a.IdA
	B    b.IdB
	K    a.KA
	KB   b.KB
	S    a.SA
	T    time.Time
	C    c.SC
	M    map[string]b.SB
	U    Shape
	V    Animal
	L    []Both
	AK   ak.Kind
	BK   bk.Kind
}

type Table2 struct {
	Id  b.IdB
	Ref a.IdA
	S   b.SB
	W   []Shape
}
`)
	_ = multi
	inputs := []struct {
		file           string
		sql, api       bool
	}{
		{"../testutils/testsource/defs.go", false, false},
		{"../analysis/sql/test/models.go", true, false},
		{"../analysis/httpapi/test/routes.go", false, true},
		{filepath.Join(root, "root.go"), true, false},
	}
	reps := 12
	if os.Getenv("GOVC_TIER") == "thorough" {
		reps = 60
	}
	cases := 0
	defer func() { fmt.Printf("GOVC-CASES %d\n", cases) }()
	for _, in := range inputs {
		if _, err := os.Stat(in.file); err != nil {
			continue
		}
		first := govcGenerateAll(t, in.file, in.sql, in.api)
		for rep := 1; rep < reps; rep++ {
			cases++
			again := govcGenerateAll(t, in.file, in.sql, in.api)
			for target, text := range first {
				if again[target] != text {
					fmt.Printf("GOVC-FAIL {\"source\":%q,\"target\":%q,\"repetition\":%d} two generations differ\n", in.file, target, rep)
					t.Fatalf("target %s of %s is not deterministic (repetition %d):\n--- first\n%s\n--- now\n%s", target, in.file, rep, govcFirstDiff(text, again[target]), "")
				}
			}
		}
	}
}

func govcFirstDiff(a, b string) string {
	la, lb := strings.Split(a, "\n"), strings.Split(b, "\n")
	for i := 0; i < len(la) && i < len(lb); i++ {
		if la[i] != lb[i] {
			return fmt.Sprintf("line %d: %q vs %q", i+1, la[i], lb[i])
		}
	}
	return fmt.Sprintf("lengths %d vs %d lines", len(la), len(lb))
}
