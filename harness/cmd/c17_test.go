package main

// Bounded stand-in for the callers of the loading functions (C17): in configuration mode every file is
// run with the package that contains it, whatever the order of the files and whichever carry Dart actions.

import (
	"fmt"
	"os"
	"os/exec"
	"path/filepath"
	"strings"
	"testing"
)

func TestGovcHarness_ConfigRun(t *testing.T) {
	os.Setenv("GOFLAGS", "-mod=mod")
	os.Setenv("GOPROXY", "off")
	cases := 0
	defer func() { fmt.Printf("GOVC-CASES %d\n", cases) }()
	oldPath := os.Getenv("PATH")
	defer os.Setenv("PATH", oldPath)
	// a configuration that lists no source file is refused with an error (it used to crash in commonPrefix)
	for _, empty := range []Config{{}, {"_dart": Actions{{Mode: dartGen, Output: "/var/tmp/govc-nowhere"}}}} {
		cases++
		func() {
			defer func() {
				if r := recover(); r != nil {
					fmt.Printf("GOVC-FAIL {\"empty-config\":true} %v\n", r)
					t.Errorf("empty configuration: %v", r)
				}
			}()
			if err := empty.run(false, false); err == nil {
				fmt.Printf("GOVC-FAIL {\"empty-config\":true} no error\n")
				t.Errorf("empty configuration: no error")
			}
		}()
	}
	// which file carries the Dart action: none, the first in name order, the second, both
	for variant := 0; variant < 4; variant++ {
		root, err := os.MkdirTemp("/var/tmp", "govc-c17cmd-")
		if err != nil {
			t.Fatal(err)
		}
		w := func(rel, content string) string {
			p := filepath.Join(root, rel)
			os.MkdirAll(filepath.Dir(p), 0o755)
			os.WriteFile(p, []byte(content), 0o644)
			return p
		}
		w("go.mod", "module example.com/org/m\n\ngo 1.21\n")
		apiFile := w("api/a.go", "package api\n\ntype Route struct{ Path string }\n")
		modelFile := w("models/m.go", "package models\n\ntype Model struct{ N int }\n")
		out := filepath.Join(root, "out")
		os.MkdirAll(filepath.Join(out, "dart"), 0o755)
		conf := Config{
			apiFile:   Actions{{Mode: typescriptTypesGen, Output: filepath.Join(out, "api.ts")}},
			modelFile: Actions{{Mode: typescriptTypesGen, Output: filepath.Join(out, "models.ts")}},
			"_dart":   Actions{{Mode: dartGen, Output: filepath.Join(out, "dart")}},
		}
		if variant&1 != 0 {
			conf[apiFile] = append(conf[apiFile], action{Mode: dartGen, Output: "x"})
		}
		if variant&2 != 0 {
			conf[modelFile] = append(conf[modelFile], action{Mode: dartGen, Output: "x"})
		}
		// no external formatter: only the go command is reachable
		nobin := filepath.Join(root, "nobin")
		os.MkdirAll(nobin, 0o755)
		if goBin, err := exec.LookPath("go"); err == nil {
			os.Symlink(goBin, filepath.Join(nobin, "go"))
		}
		os.Setenv("PATH", nobin)
		func() {
			defer func() {
				if r := recover(); r != nil {
					fmt.Printf("GOVC-FAIL {\"variant\":%d} %v\n", variant, r)
					t.Errorf("variant %d: %v", variant, r)
				}
			}()
			if err := conf.run(false, false); err != nil {
				fmt.Printf("GOVC-FAIL {\"variant\":%d} %v\n", variant, err)
				t.Errorf("variant %d: %v", variant, err)
			}
		}()
		os.Setenv("PATH", oldPath)
		for file, want := range map[string]string{"api.ts": "Route", "models.ts": "Model"} {
			cases++
			data, _ := os.ReadFile(filepath.Join(out, file))
			if !strings.Contains(string(data), "interface "+want) {
				fmt.Printf("GOVC-FAIL {\"variant\":%d,\"file\":%q}\n", variant, file)
				t.Errorf("variant %d: %s does not declare %s: the file was not run with its own package\n%s", variant, file, want, data)
			}
		}
		os.RemoveAll(root)
	}
}
