package main

// Bounded stand-in for the caller side of C20: which formatter is asked for which output. Every action mode is
// run on a scratch module with output files of NON-conventional names; stub tools (the only entries of PATH besides
// the go command) log their invocations: each output is formatted exactly once, by the tool of its action mode.

import (
	"fmt"
	"os"
	"os/exec"
	"path/filepath"
	"strings"
	"testing"

	"github.com/benoitkugler/gomacro/generator"
)

const govcFmtStub = `#!/bin/sh
echo "${0##*/} $*" >> "$GOVC_LOG"
exit 0
`

const govcFmtWhich = `#!/bin/sh
if [ -x "$GOVC_DIR/$1" ]; then exit 0; fi
exit 1
`

func TestGovcHarness_OutputFormats(t *testing.T) {
	os.Setenv("GOFLAGS", "-mod=mod")
	os.Setenv("GOPROXY", "off")
	cases := 0
	defer func() { fmt.Printf("GOVC-CASES %d\n", cases) }()
	root, err := os.MkdirTemp("/var/tmp", "govc-c20cmd-")
	if err != nil {
		t.Fatal(err)
	}
	defer os.RemoveAll(root)
	os.WriteFile(filepath.Join(root, "go.mod"), []byte("module example.com/org/m\n\ngo 1.21\n"), 0o644)
	src := filepath.Join(root, "m.go")
	os.WriteFile(src, []byte("package m\n\ntype IdItem int64\n\ntype U interface{ isU() }\n\ntype Item struct {\n\tId   IdItem\n\tName string\n}\n\nfunc (Item) isU() {}\n"), 0o644)
	bin := filepath.Join(root, "bin")
	os.MkdirAll(bin, 0o755)
	for _, tool := range []string{"goimports", "dart", "npx", "pg_format"} {
		os.WriteFile(filepath.Join(bin, tool), []byte(govcFmtStub), 0o755)
	}
	os.WriteFile(filepath.Join(bin, "which"), []byte(govcFmtWhich), 0o755)
	if goBin, err := exec.LookPath("go"); err == nil {
		os.Symlink(goBin, filepath.Join(bin, "go"))
	}
	log := filepath.Join(root, "log.txt")
	os.WriteFile(log, nil, 0o644)
	oldPath := os.Getenv("PATH")
	defer os.Setenv("PATH", oldPath)
	os.Setenv("PATH", bin)
	os.Setenv("GOVC_LOG", log)
	os.Setenv("GOVC_DIR", bin)
	out := filepath.Join(root, "out")
	os.MkdirAll(filepath.Join(out, "dartdir"), 0o755)
	// outputs with names that say nothing about their content
	outputs := map[mode]string{
		goUnionsGen:        filepath.Join(out, "unions.gen"),
		goRanddataGen:      filepath.Join(out, "rand.txt"),
		sqlGen:             filepath.Join(out, "create_tables.psql"),
		typescriptTypesGen: filepath.Join(out, "types.gen"),
	}
	conf := Config{"_dart": Actions{{Mode: dartGen, Output: filepath.Join(out, "dartdir")}}}
	for m, o := range outputs {
		conf[src] = append(conf[src], action{Mode: m, Output: o})
	}
	conf[src] = append(conf[src], action{Mode: dartGen, Output: "x"})
	fmts = generator.Formatters{} // the package-level cache may have been filled by another test of the process
	if err := conf.run(false, false); err != nil {
		fmt.Printf("GOVC-FAIL {\"run\":%q}\n", err.Error())
		t.Fatal(err)
	}
	data, _ := os.ReadFile(log)
	lines := strings.Split(string(data), "\n")
	count := func(prefix string) int {
		n := 0
		for _, l := range lines {
			if strings.HasPrefix(l, prefix) {
				n++
			}
		}
		return n
	}
	expect := func(what string, ok bool) {
		cases++
		if !ok {
			fmt.Printf("GOVC-FAIL {\"check\":%q}\n", what)
			t.Errorf("%s\n--- tool log:\n%s", what, data)
		}
	}
	expect("go/unions output formatted once by goimports", count("goimports -w "+outputs[goUnionsGen]) == 1)
	expect("go/randdata output formatted once by goimports", count("goimports -w "+outputs[goRanddataGen]) == 1)
	expect("sql output formatted once by pg_format", count("pg_format -i "+outputs[sqlGen]) == 1)
	expect("typescript output formatted once by prettier", count("npx prettier --write "+outputs[typescriptTypesGen]) == 1)
	expect("dart output formatted by dart format", count("dart format "+filepath.Join(out, "dartdir")) >= 1)
	expect("no output formatted by a tool of another language", count("goimports -w ") == 2 && count("pg_format -i ") == 1 && count("npx prettier --write ") == 1)
}

