package main

// Bounded stand-in / counterexample search for C18: well-typed source files in unusual spellings
// and with unsupported forms go through the analysis and every generator. A panic whose value is a
// runtime.Error (index/slice out of range, nil dereference, failed type assertion) is a crash; a
// panic with a string / error built by gomacro is a diagnostic and is fine.

import (
	"encoding/json"
	"fmt"
	"os"
	"path/filepath"
	"runtime"
	"strings"
	"testing"

	"github.com/benoitkugler/gomacro/analysis"
	"github.com/benoitkugler/gomacro/generator"
	"github.com/benoitkugler/gomacro/generator/dart"
	"github.com/benoitkugler/gomacro/generator/go/gounions"
	"github.com/benoitkugler/gomacro/generator/go/randdata"
	"github.com/benoitkugler/gomacro/generator/go/sqlcrud"
	"github.com/benoitkugler/gomacro/generator/sql"
	"github.com/benoitkugler/gomacro/generator/typescript"
)

type govcCase struct {
	Name  string
	Files map[string]string // relative path -> content; "root.go" is analysed
}

var govcCases = []govcCase{
	{"one-letter-union", map[string]string{"root.go": "package m\n\ntype U interface{ isU() }\n\ntype A struct{ X int }\n\nfunc (A) isU() {}\n\ntype T struct{ F U }\n"}},
	{"two-letter-union", map[string]string{"root.go": "package m\n\ntype Ab interface{ isU() }\n\ntype A struct{ X int }\n\nfunc (A) isU() {}\n\ntype T struct{ F Ab; L []Ab }\n"}},
	{"short-package-name", map[string]string{"db/db.go": "package db\n\ntype Row struct{ N int }\n\ntype Id int64\n", "root.go": "package m\n\nimport \"example.com/org/m/db\"\n\ntype T struct {\n\tR db.Row\n\tI db.Id\n}\n"}},
	{"one-letter-package", map[string]string{"x/x.go": "package x\n\ntype S string\n", "root.go": "package m\n\nimport \"example.com/org/m/x\"\n\ntype T struct{ V x.S }\n"}},
	{"named-pointer", map[string]string{"root.go": "package m\n\ntype P *int\n\ntype T struct{ F P }\n"}},
	{"pointer-field", map[string]string{"root.go": "package m\n\ntype T struct{ F *int }\n"}},
	{"multi-name-const", map[string]string{"root.go": "package m\n\ntype M int\n\nconst M1, M2 M = 1, 2\n\ntype T struct{ F M }\n"}},
	{"grouped-multi-name-const", map[string]string{"root.go": "package m\n\ntype M int\n\nconst (\n\tA, B M = 0, 1 // both\n\tC    M = 2\n)\n\ntype T struct{ F M }\n"}},
	{"generic-basic-arg", map[string]string{"other.go": "package m\n\ntype G[T any] struct{ V T }\n", "root.go": "package m\n\ntype T struct {\n\tA G[int64]\n\tB G[string]\n}\n"}},
	{"generic-named-arg", map[string]string{"other.go": "package m\n\ntype G[T any] struct{ V T }\n\ntype Id int64\n", "root.go": "package m\n\ntype T struct{ A G[Id] }\n"}},
	{"enum-underscore-names", map[string]string{"root.go": "package m\n\ntype E int\n\nconst (\n\tX_ E = iota\n\tY_\n)\n\ntype T struct{ F E }\n"}},
	{"enum-prefix-names", map[string]string{"root.go": "package m\n\ntype E int\n\nconst (\n\tE_A E = iota\n\tE_B\n\t_c\n)\n\ntype T struct{ F E }\n"}},
	{"enum-typo-in-guard", map[string]string{"root.go": "package m\n\ntype K int\n\nconst (\n\tK0 K = iota\n\tK1\n)\n\n// gomacro:SQL ADD CHECK(Kind = #[Typo.K0])\ntype Tab struct {\n\tId   int64\n\tKind K\n}\n"}},
	{"enum-unknown-member-in-guard", map[string]string{"root.go": "package m\n\ntype K int\n\nconst (\n\tK0 K = iota\n\tK1\n)\n\n// gomacro:SQL ADD CHECK(Kind = #[K.Nope])\ntype Tab struct {\n\tId   int64\n\tKind K\n}\n"}},
	{"anonymous-timelike-field", map[string]string{"root.go": "package m\n\nimport \"time\"\n\ntype T struct {\n\tA time.Time\n\tB struct{ X int }\n}\n"}},
	{"select-key-unknown-column", map[string]string{"root.go": "package m\n\n// gomacro:SQL _SELECT KEY (Unknown)\ntype Tab struct {\n\tId int64\n\tN  int\n}\n"}},
	{"select-key-two-columns", map[string]string{"root.go": "package m\n\n// gomacro:SQL _SELECT KEY (N, M)\ntype Tab struct {\n\tId int64\n\tN  int\n\tM  string\n}\n"}},
	{"unique-unknown-column", map[string]string{"root.go": "package m\n\n// gomacro:SQL ADD UNIQUE(Nope)\ntype Tab struct {\n\tId int64\n\tN  int\n}\n"}},
	{"query-unknown-field", map[string]string{"root.go": "package m\n\n// gomacro:QUERY DoIt UPDATE tabs SET N = 1 WHERE Nope = $v$\ntype Tab struct {\n\tId int64\n\tN  int\n}\n"}},
	{"chan-field", map[string]string{"root.go": "package m\n\ntype T struct{ C chan int }\n"}},
	{"func-field", map[string]string{"root.go": "package m\n\ntype T struct{ F func() }\n"}},
	{"complex-field", map[string]string{"root.go": "package m\n\ntype T struct{ Z complex128 }\n"}},
	{"empty-interface-field", map[string]string{"root.go": "package m\n\ntype T struct{ A interface{}; B any }\n"}},
	{"foreign-interface-field", map[string]string{"root.go": "package m\n\nimport \"io\"\n\ntype T struct{ R io.Reader }\n"}},
	{"anonymous-union-container", map[string]string{"root.go": "package m\n\ntype U interface{ isU() }\n\ntype A struct{}\n\nfunc (A) isU() {}\n\ntype T struct {\n\tL []U\n\tM map[string]U\n\tN [2]U\n}\n"}},
	{"unexported-only", map[string]string{"root.go": "package m\n\ntype t struct{ a int }\n\ntype e int\n\nconst e0 e = 0\n\ntype T struct{ F int }\n"}},
	{"grouped-types", map[string]string{"root.go": "package m\n\ntype (\n\t// gomacro:SQL ADD UNIQUE(N)\n\tTab struct {\n\t\tId int64\n\t\tN  int\n\t}\n\tO struct{ Id int64 }\n)\n"}},
	{"recursive", map[string]string{"root.go": "package m\n\ntype R struct {\n\tL []R\n\tM map[string]R\n\tA [2][]R\n}\n\ntype X struct{ Y []Y }\n\ntype Y struct{ X []X }\n"}},
	{"embedded", map[string]string{"root.go": "package m\n\ntype Base struct{ A int }\n\ntype N int\n\ntype T struct {\n\tBase\n\tN\n\tC string\n}\n"}},
	{"id-like-names", map[string]string{"root.go": "package m\n\ntype Id int64\n\ntype ID int64\n\ntype IdX int64\n\ntype XID int64\n\ntype Tab struct {\n\tId Id\n\tA  ID\n\tB  IdX\n\tC  XID\n}\n"}},
	{"bool-float-enums", map[string]string{"root.go": "package m\n\ntype B bool\n\nconst (\n\tYes B = true\n\tNo  B = false\n)\n\ntype F float64\n\nconst Pi F = 3.14\n\ntype T struct {\n\tB B\n\tF F\n}\n"}},
	{"generic-two-params", map[string]string{"other.go": "package m\n\ntype P[K comparable, V any] struct {\n\tK K\n\tV V\n}\n", "root.go": "package m\n\ntype T struct {\n\tA P[string, int]\n\tB P[int, []string]\n}\n"}},
	{"generic-slice-arg", map[string]string{"other.go": "package m\n\ntype G[T any] struct{ V T }\n", "root.go": "package m\n\ntype T struct{ A G[[]int] }\n"}},
	{"link-table", map[string]string{"root.go": "package m\n\ntype IdA int64\n\ntype IdB int64\n\ntype A struct{ Id IdA }\n\ntype B struct{ Id IdB }\n\ntype NullA struct {\n\tValid bool\n\tId    IdA\n}\n\n// gomacro:SQL ADD UNIQUE(IdA, IdB)\ntype Link struct {\n\tIdA IdA\n\tIdB IdB `gomacro-sql-on-delete:\"CASCADE\"`\n\tOpt NullA `gomacro-sql-foreign:\"A\"`\n}\n"}},
	{"sql-kinds", map[string]string{"root.go": "package m\n\nimport \"time\"\n\ntype K uint8\n\nconst (\n\tK0 K = iota\n\tK1\n)\n\ntype S string\n\nconst (\n\tSa S = \"it's\"\n\tSb S = \"b\\\"q\"\n)\n\ntype Comp struct {\n\tA int\n\tB K\n}\n\ntype Date time.Time\n\ntype Tab struct {\n\tId    int64\n\tB     bool\n\tI16   int16\n\tU8    uint8\n\tF     float32\n\tBs    []byte\n\tKs    []K\n\tFix   [3]int\n\tFixK  [2]K\n\tC     Comp\n\tD     Date\n\tT     time.Time\n\tM     map[string]int\n\tSs    [2]S\n\tSl    []S\n\tG     string `gomacro-sql-guard:\"'x'\"`\n\tGK    K      `gomacro-sql-guard:\"#[K.K1]\"`\n\thid   int\n\tIgn   int `json:\"-\"`\n}\n"}},
	{"enum-all-unexported", map[string]string{"root.go": "package m\n\ntype E int\n\nconst (\n\te0 E = iota\n\te1\n)\n\ntype T struct{ F E; L []E; M map[E]int }\n"}},
	{"enum-single-negative", map[string]string{"root.go": "package m\n\ntype E int\n\nconst Neg E = -3\n\ntype T struct{ F E; A [2]E }\n"}},
	{"map-keys", map[string]string{"root.go": "package m\n\ntype K string\n\ntype E int\n\nconst (\n\tE0 E = iota\n\tE1\n)\n\ntype I int\n\ntype T struct {\n\tA map[K]int\n\tB map[E]string\n\tC map[I]bool\n\tD map[int]map[string][]int\n\tF map[bool]int\n}\n"}},
	{"time-wrappers", map[string]string{"root.go": "package m\n\nimport \"time\"\n\ntype Date time.Time\n\ntype MyDate time.Time\n\ntype Stamp time.Time\n\ntype T struct {\n\tA Date\n\tB MyDate\n\tC Stamp\n\tD []time.Time\n\tE map[string]Date\n}\n"}},
	{"embedded-pointer", map[string]string{"root.go": "package m\n\ntype Base struct{ A int }\n\ntype T struct {\n\t*Base\n\tC string\n}\n"}},
	{"embedded-tagged", map[string]string{"root.go": "package m\n\ntype Emb struct{ A, B int }\n\ntype Hid struct{ X int }\n\ntype T struct {\n\tEmb `json:\"e\"`\n\tHid `json:\"-\"`\n\tC   int `json:\"c,omitempty\"`\n\tD   int `json:\",omitempty\"`\n}\n"}},
	{"stdlib-struct-field", map[string]string{"root.go": "package m\n\nimport \"net/url\"\n\ntype T struct{ U url.URL }\n"}},
	{"union-foreign-implementer", map[string]string{"sub/sub.go": "package sub\n\ntype Ext struct{}\n\nfunc (Ext) IsU() {}\n", "root.go": "package m\n\nimport \"example.com/org/m/sub\"\n\ntype U interface{ IsU() }\n\ntype In struct{}\n\nfunc (In) IsU() {}\n\nvar _ U = sub.Ext{}\n\ntype T struct{ F U }\n"}},
	{"union-of-named-basics", map[string]string{"root.go": "package m\n\ntype U interface{ isU() }\n\ntype N int\n\nfunc (N) isU() {}\n\ntype L []string\n\nfunc (L) isU() {}\n\ntype M map[string]int\n\nfunc (M) isU() {}\n\ntype T struct{ F U }\n"}},
	{"union-pointer-receiver", map[string]string{"root.go": "package m\n\ntype U interface{ isU() }\n\ntype A struct{}\n\nfunc (*A) isU() {}\n\ntype B struct{}\n\nfunc (B) isU() {}\n\ntype T struct{ F U }\n"}},
	{"interface-without-implementer", map[string]string{"root.go": "package m\n\ntype U interface{ isU() }\n\ntype T struct{ F U }\n"}},
	{"opaque-and-ignore-tags", map[string]string{"root.go": "package m\n\ntype T struct {\n\tA chan int `gomacro:\"ignore\"`\n\tB func()   `json:\"-\"`\n\tC map[string]any `gomacro-opaque:\"typescript,dart\"`\n\td chan int\n}\n"}},
	{"array-of-structs-and-maps", map[string]string{"root.go": "package m\n\ntype S struct{ A int }\n\ntype T struct {\n\tA [2]S\n\tB [3][]S\n\tC [2]map[string]int\n\tD [0]int\n}\n"}},
	{"query-comment", map[string]string{"root.go": "package m\n\ntype K int\n\nconst (\n\tK0 K = iota\n\tK1\n)\n\n// gomacro:QUERY SetN UPDATE Tab SET N = $n$ WHERE Id = $id$ AND N = $n$ AND Kind = #[K.K1]\n// gomacro:SQL ADD CHECK(N > 0)\n// gomacro:SQL CREATE INDEX ON Tab (N)\ntype Tab struct {\n\tId   int64\n\tN    int\n\tKind K\n}\n"}},
	{"query-without-space", map[string]string{"root.go": "package m\n\n// gomacro:QUERY OnlyName\ntype Tab struct {\n\tId int64\n}\n"}},
	{"unknown-special-comment", map[string]string{"root.go": "package m\n\n// gomacro:FOO bar\ntype Tab struct {\n\tId int64\n}\n"}},
	{"foreign-tag-bad-type", map[string]string{"root.go": "package m\n\ntype Tab struct {\n\tId int64\n\tR  string `gomacro-sql-foreign:\"Other\"`\n}\n"}},
	{"type-alias", map[string]string{"root.go": "package m\n\ntype S struct{ A int }\n\ntype Al = S\n\ntype AlI = int\n\ntype T struct {\n\tA Al\n\tB AlI\n\tC []Al\n}\n"}},
	{"null-wrapper-named-time", map[string]string{"root.go": "package m\n\nimport \"time\"\n\ntype MyDate time.Time\n\ntype Stamp time.Time\n\ntype ND struct {\n\tValid bool\n\tD     MyDate\n}\n\ntype NS struct {\n\tS     Stamp\n\tValid bool\n}\n\ntype Tab struct {\n\tId int64\n\tA  ND\n\tB  NS\n}\n"}},
	{"null-wrapper-odd", map[string]string{"root.go": "package m\n\ntype S struct{ X int }\n\ntype NS struct {\n\tValid bool\n\tS     S\n}\n\ntype NL struct {\n\tValid bool\n\tL     []int\n}\n\ntype NC struct {\n\tValid bool\n\tC     complex128\n}\n\ntype VV struct {\n\tValid bool\n\tOther bool\n}\n\ntype Tab struct {\n\tId int64\n\tA  NS\n\tB  NL\n\tD  VV\n}\n"}},
	{"named-containers-of-unions", map[string]string{"root.go": "package m\n\ntype U interface{ isU() }\n\ntype A struct{}\n\nfunc (A) isU() {}\n\ntype LU []U\n\ntype MU map[string]U\n\ntype LLU [][]U\n\ntype MLU map[string][]U\n\ntype AU [2]U\n\ntype T struct {\n\tA LU\n\tB MU\n\tC AU\n}\n"}},
	{"named-nested-containers-of-unions", map[string]string{"root.go": "package m\n\ntype U interface{ isU() }\n\ntype A struct{}\n\nfunc (A) isU() {}\n\ntype LLU [][]U\n\ntype MLU map[string][]U\n\ntype T struct {\n\tC LLU\n\tD MLU\n}\n"}},
	{"named-over-named", map[string]string{"root.go": "package m\n\ntype A int\n\ntype B A\n\ntype C B\n\ntype L []C\n\ntype LL L\n\ntype T struct {\n\tA A\n\tB B\n\tC C\n\tL LL\n}\n"}},
	{"id-table-edge", map[string]string{"root.go": "package m\n\ntype Id int64\n\ntype ID int64\n\ntype IdT int64\n\ntype T struct {\n\tId IdT\n\tA  Id\n\tB  ID\n}\n\ntype I struct{ Id int64 }\n\ntype Link struct {\n\tA IdT\n\tB IdT\n}\n"}},
	{"anonymous-struct-spelled-like-time", map[string]string{"root.go": "package m\n\nimport \"time\"\n\ntype T struct {\n\tA struct {\n\t\twall uint64\n\t\text  int64\n\t\tloc  *time.Location\n\t}\n}\n"}},
	{"named-struct-spelled-like-time", map[string]string{"root.go": "package m\n\nimport \"time\"\n\ntype Mine struct {\n\twall uint64\n\text  int64\n\tloc  *time.Location\n}\n\ntype T struct{ A Mine; D []Mine }\n"}},
	{"null-wrappers", map[string]string{"root.go": "package m\n\nimport \"time\"\n\ntype NI struct {\n\tValid bool\n\tV     int64\n}\n\ntype NT struct {\n\tT     time.Time\n\tValid bool\n}\n\ntype Tab struct {\n\tId int64\n\tA  NI\n\tB  NT\n}\n"}},
}

func govcIsCrash(r interface{}) bool {
	_, isRuntime := r.(runtime.Error)
	return isRuntime
}

// govcRunCase returns a description of the first crash ("" if none).
func govcRunCase(c govcCase) (crash string) {
	root, err := os.MkdirTemp("/var/tmp", "govc-c18-")
	if err != nil {
		return "mkdir: " + err.Error()
	}
	defer os.RemoveAll(root)
	os.WriteFile(filepath.Join(root, "go.mod"), []byte("module example.com/org/m\n\ngo 1.21\n"), 0o644)
	for rel, content := range c.Files {
		p := filepath.Join(root, rel)
		os.MkdirAll(filepath.Dir(p), 0o755)
		os.WriteFile(p, []byte(content), 0o644)
	}
	file := filepath.Join(root, "root.go")
	pkg, err := analysis.LoadSource(file)
	if err != nil {
		return "" // not a well-typed input for this toolchain: nothing to check
	}
	step := func(name string, f func()) (stop bool) {
		defer func() {
			if r := recover(); r != nil {
				if govcIsCrash(r) {
					crash = fmt.Sprintf("%s: runtime error: %v", name, r)
				}
				stop = true // diagnostic: this target stops here, which is allowed
			}
		}()
		f()
		return false
	}
	var ana *analysis.Analysis
	if step("analysis", func() { ana = analysis.NewAnalysisFromFile(pkg, file) }) {
		return crash
	}
	targets := []struct {
		name string
		f    func()
	}{
		{"go/unions", func() { generator.WriteDeclarations(gounions.Generate(ana)) }},
		{"go/randdata", func() { generator.WriteDeclarations(randdata.Generate(ana)) }},
		{"go/sqlcrud", func() { generator.WriteDeclarations(sqlcrud.Generate(ana, true)) }},
		{"sql", func() { generator.WriteDeclarations(sql.Generate(ana)) }},
		{"typescript/types", func() { generator.WriteDeclarations(typescript.Generate(ana)) }},
		{"dart", func() {
			for _, o := range dart.Generate(root, []*analysis.Analysis{ana}) {
				generator.WriteDeclarations(o.Content)
			}
		}},
	}
	for _, tg := range targets {
		step(tg.name, tg.f)
		if crash != "" {
			return crash
		}
	}
	return ""
}

func TestGovcHarness_NoCrash(t *testing.T) {
	os.Setenv("GOFLAGS", "-mod=mod")
	os.Setenv("GOPROXY", "off")
	cases := govcCases
	if rp := os.Getenv("GOVC_REPLAY"); rp != "" {
		var name struct{ Case string }
		json.Unmarshal([]byte(rp[:strings.Index(rp, "}")+1]), &name)
		cases = nil
		for _, c := range govcCases {
			if c.Name == name.Case {
				cases = append(cases, c)
			}
		}
	}
	n := 0
	defer func() { fmt.Printf("GOVC-CASES %d\n", n) }()
	failed := false
	for _, c := range cases {
		n++
		if crash := govcRunCase(c); crash != "" {
			fmt.Printf("GOVC-FAIL {\"case\":%q} %s\n", c.Name, crash)
			t.Errorf("case %s: %s", c.Name, crash)
			failed = true
		}
	}
	_ = failed
}
