package randdata

// Bounded stand-in / counterexample search for the C15 kernel: the generated random-data code for
// enums and unions. The emitted text is parsed with go/parser and the choice lists are inspected.

import (
	"fmt"
	"go/parser"
	"go/token"
	"os"
	"regexp"
	"strings"
	"testing"

	"github.com/benoitkugler/gomacro/analysis"
	"github.com/benoitkugler/gomacro/generator"
)

var govcChoix = regexp.MustCompile(`choix := \[\.\.\.\](\w+)\{([^}]*)\}`)

func TestGovcHarness_RandEnum(t *testing.T) {
	os.Setenv("GOFLAGS", "-mod=mod")
	os.Setenv("GOPROXY", "off")
	cases := 0
	defer func() { fmt.Printf("GOVC-CASES %d\n", cases) }()
	// every subset of exported / unexported members for 1..4 members
	for n := 1; n <= 4; n++ {
		for mask := 0; mask < 1<<n; mask++ {
			cases++
			var b strings.Builder
			b.WriteString("package m\n\ntype E int\n\nconst (\n")
			exported := 0
			for i := 0; i < n; i++ {
				name := fmt.Sprintf("e%d", i)
				if mask&(1<<i) != 0 {
					name = fmt.Sprintf("E%d", i)
					exported++
				}
				fmt.Fprintf(&b, "\t%s E = %d\n", name, i)
			}
			b.WriteString(")\n\ntype U interface{ isU() }\n\ntype A struct{ X E }\n\nfunc (A) isU() {}\n\ntype B struct{}\n\nfunc (B) isU() {}\n\ntype T struct {\n\tF E\n\tG U\n}\n")
			root, _ := os.MkdirTemp("/var/tmp", "govc-c15-")
			os.WriteFile(root+"/go.mod", []byte("module example.com/org/m\n\ngo 1.21\n"), 0o644)
			os.WriteFile(root+"/root.go", []byte(b.String()), 0o644)
			pkg, err := analysis.LoadSource(root + "/root.go")
			if err != nil {
				os.RemoveAll(root)
				t.Fatal(err)
			}
			ana := analysis.NewAnalysisFromFile(pkg, root+"/root.go")
			code := generator.WriteDeclarations(Generate(ana))
			os.RemoveAll(root)
			fail := func(format string, a ...interface{}) {
				fmt.Printf("GOVC-FAIL {\"members\":%d,\"exported_mask\":%d} %s\n", n, mask, fmt.Sprintf(format, a...))
				t.Fatalf(format, a...)
			}
			for _, m := range govcChoix.FindAllStringSubmatch(code, -1) {
				if m[1] != "E" {
					continue
				}
				var entries []string
				if strings.TrimSpace(m[2]) != "" {
					entries = strings.Split(m[2], ",")
				}
				if len(entries) != exported {
					fail("choice list of the enum has %d entries for %d exported members: {%s}", len(entries), exported, m[2])
				}
				for _, e := range entries {
					if strings.TrimSpace(e) == "" {
						fail("empty entry in the choice list of the enum: {%s}", m[2])
					}
				}
			}
			if exported > 0 {
				if _, err := parser.ParseFile(token.NewFileSet(), "gen.go", code, 0); err != nil {
					fail("generated code does not parse: %v", err)
				}
			} else if strings.Contains(code, "choix := [...]E{}") && strings.Contains(code, "rand.Intn(len(choix))") {
				// recorded finding (not fatal: the other cases still run): the emitted function would panic when called
				fmt.Printf("GOVC-FAIL {\"enum-without-exported-constant\":true,\"members\":%d} the emitted function draws from an empty array: rand.Intn(0) panics at run time\n", n)
				t.Errorf("enum with %d unexported constants only: emitted generator indexes an empty array", n)
			}
			if !strings.Contains(code, "rand.Intn(2)") {
				fail("union with two members: bound passed to rand.Intn is not 2")
			}
		}
	}
}

// ---- second scenario: types from a same-named package, a sentinel constant, a pointer-receiver member.
// (Whether the emitted file compiles — its import list in particular — is C01, not checked here.)

const govcC15Root = `package models

import smodels "example.com/org/m/store/models"

type Status int

const (
	Draft Status = iota
	Live
)

type Kind int

const (
	K0 Kind = iota
	K1
	NbKinds Kind = 2 // gomacro:no-enum
)

type Shape interface{ isShape() }

type Circle struct{ R int }

func (Circle) isShape() {}

type Square struct{ S int }

func (*Square) isShape() {}

// a member that gets the marker method by embedding
type shapeTag struct{}

func (shapeTag) isShape() {}

type Ring struct {
	shapeTag
	R int
}

// not an enum: its only constant is unexported and opted out
type Token string

const defaultToken Token = "x" // gomacro:no-enum

// an embedded pointer is a field of its own (its promoted fields are not assignable before it is set)
type Meta struct{ Author string }

type Document struct {
	*Meta
	Title string
}

// fields marked to be skipped for data generation
type Account struct {
	Name   string
	Secret string ` + "`gomacro-data:\"ignore\"`" + `
	Count  int    ` + "`gomacro-data:\"ignore\"`" + `
}

type Row struct {
	Local  Status
	Remote smodels.Status
	K      Kind
	Sh     Shape
	Sq     Square
	Tk     Token
	Acc    Account
	Doc    Document
}
`

const govcC15Store = `package models

type Status string

const (
	Hot  Status = "hot"
	Cold Status = "cold"
)
`

func TestGovcHarness_RandPackages(t *testing.T) {
	os.Setenv("GOFLAGS", "-mod=mod")
	os.Setenv("GOPROXY", "off")
	cases := 0
	defer func() { fmt.Printf("GOVC-CASES %d\n", cases) }()
	root, _ := os.MkdirTemp("/var/tmp", "govc-c15b-")
	defer os.RemoveAll(root)
	os.WriteFile(root+"/go.mod", []byte("module example.com/org/m\n\ngo 1.21\n"), 0o644)
	os.MkdirAll(root+"/models", 0o755)
	os.MkdirAll(root+"/store/models", 0o755)
	os.WriteFile(root+"/models/root.go", []byte(govcC15Root), 0o644)
	os.WriteFile(root+"/store/models/m.go", []byte(govcC15Store), 0o644)
	pkg, err := analysis.LoadSource(root + "/models/root.go")
	if err != nil {
		t.Fatal(err)
	}
	ana := analysis.NewAnalysisFromFile(pkg, root+"/models/root.go")
	code := generator.WriteDeclarations(Generate(ana))
	expect := func(what string, ok bool) {
		cases++
		if !ok {
			fmt.Printf("GOVC-FAIL {\"check\":%q}\n", what)
			t.Errorf("%s\n--- generated:\n%s", what, code)
		}
	}
	// 2. an enum with a sentinel excluded by the marker still draws from its exported constants
	var kindChoices string
	for _, m := range govcChoix.FindAllStringSubmatch(code, -1) {
		if m[1] == "Kind" {
			kindChoices = strings.Join(strings.Fields(m[2]), "")
		}
	}
	expect("Kind draws from exactly {K0, K1} (got {"+kindChoices+"})", kindChoices == "K0,K1")
	// 3. only the types that implement the interface are drawn for a union
	expect("the union Shape is drawn among its 3 members (Circle, Ring by embedding, shapeTag; not *Square)", strings.Contains(code, "rand.Intn(3)") && !strings.Contains(code, "rand.Intn(2)") && !strings.Contains(code, "rand.Intn(4)") && strings.Contains(code, "randRing(),"))
	// a named string whose only constant is opted out is not an enum: no empty choice list
	docBody := ""
	if m := regexp.MustCompile(`(?s)func randDocument\(\) Document \{(.*?)return s`).FindStringSubmatch(code); m != nil {
		docBody = m[1]
	}
	expect("an embedded pointer is assigned as a whole, its promoted fields are not assigned through a nil pointer", strings.Contains(docBody, "s.Meta = ") && !strings.Contains(docBody, "s.Author = "))
	expect("Token is generated as a plain string, not as an enum", !strings.Contains(code, "[...]Token{"))
	// fields tagged gomacro-data:\"ignore\" keep their zero value
	expect("ignored data fields are not assigned", strings.Contains(code, "s.Name = ") && !strings.Contains(code, "s.Secret = ") && !strings.Contains(code, "s.Count = "))
	// 4. same-named enums of two packages keep their own generators: each field is filled by a function
	// returning the field's own type
	retType := map[string]string{}
	for _, m := range regexp.MustCompile(`func (\w+)\(\) ([\w.]+) \{`).FindAllStringSubmatch(code, -1) {
		retType[m[1]] = m[2]
	}
	filler := map[string]string{}
	for _, m := range regexp.MustCompile(`s\.(\w+) = (\w+)\(\)`).FindAllStringSubmatch(code, -1) {
		filler[m[1]] = m[2]
	}
	expect(fmt.Sprintf("Row.Local (Status) is filled by a function returning Status (got %s -> %s)", filler["Local"], retType[filler["Local"]]), retType[filler["Local"]] == "Status")
	expect(fmt.Sprintf("Row.Remote (store/models.Status) is filled by a function returning models.Status (got %s -> %s)", filler["Remote"], retType[filler["Remote"]]), retType[filler["Remote"]] == "models.Status")
	expect("the two Status generators are distinct functions", filler["Local"] != filler["Remote"] && filler["Local"] != "")
	expect("the generator of the imported enum draws from the imported constants", strings.Contains(code, "[...]models.Status{models.Cold, models.Hot}"))
}
