package randdata

// Bounded stand-in / counterexample search for the C15 kernel: the generated random-data code for
// enums and unions. The emitted text is parsed with go/parser and the choice lists are inspected.

import (
	"fmt"
	"go/parser"
	"go/token"
	"os"
	"regexp"
	"strings"
	"testing"

	"github.com/benoitkugler/gomacro/analysis"
	"github.com/benoitkugler/gomacro/generator"
)

var govcChoix = regexp.MustCompile(`choix := \[\.\.\.\](\w+)\{([^}]*)\}`)

func TestGovcHarness_RandEnum(t *testing.T) {
	os.Setenv("GOFLAGS", "-mod=mod")
	os.Setenv("GOPROXY", "off")
	cases := 0
	defer func() { fmt.Printf("GOVC-CASES %d\n", cases) }()
	// every subset of exported / unexported members for 1..4 members
	for n := 1; n <= 4; n++ {
		for mask := 0; mask < 1<<n; mask++ {
			cases++
			var b strings.Builder
			b.WriteString("package m\n\ntype E int\n\nconst (\n")
			exported := 0
			for i := 0; i < n; i++ {
				name := fmt.Sprintf("e%d", i)
				if mask&(1<<i) != 0 {
					name = fmt.Sprintf("E%d", i)
					exported++
				}
				fmt.Fprintf(&b, "\t%s E = %d\n", name, i)
			}
			b.WriteString(")\n\ntype U interface{ isU() }\n\ntype A struct{ X E }\n\nfunc (A) isU() {}\n\ntype B struct{}\n\nfunc (B) isU() {}\n\ntype T struct {\n\tF E\n\tG U\n}\n")
			root, _ := os.MkdirTemp("/var/tmp", "govc-c15-")
			os.WriteFile(root+"/go.mod", []byte("module example.com/org/m\n\ngo 1.21\n"), 0o644)
			os.WriteFile(root+"/root.go", []byte(b.String()), 0o644)
			pkg, err := analysis.LoadSource(root + "/root.go")
			if err != nil {
				os.RemoveAll(root)
				t.Fatal(err)
			}
			ana := analysis.NewAnalysisFromFile(pkg, root+"/root.go")
			code := generator.WriteDeclarations(Generate(ana))
			os.RemoveAll(root)
			fail := func(format string, a ...interface{}) {
				fmt.Printf("GOVC-FAIL {\"members\":%d,\"exported_mask\":%d} %s\n", n, mask, fmt.Sprintf(format, a...))
				t.Fatalf(format, a...)
			}
			for _, m := range govcChoix.FindAllStringSubmatch(code, -1) {
				if m[1] != "E" {
					continue
				}
				var entries []string
				if strings.TrimSpace(m[2]) != "" {
					entries = strings.Split(m[2], ",")
				}
				if len(entries) != exported {
					fail("choice list of the enum has %d entries for %d exported members: {%s}", len(entries), exported, m[2])
				}
				for _, e := range entries {
					if strings.TrimSpace(e) == "" {
						fail("empty entry in the choice list of the enum: {%s}", m[2])
					}
				}
			}
			if exported > 0 {
				if _, err := parser.ParseFile(token.NewFileSet(), "gen.go", code, 0); err != nil {
					fail("generated code does not parse: %v", err)
				}
			}
			if !strings.Contains(code, "rand.Intn(2)") {
				fail("union with two members: bound passed to rand.Intn is not 2")
			}
		}
	}
}
