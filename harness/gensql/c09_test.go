package sql

// Bounded stand-in for the metamorphic clause of C09 at the generator level: adding ignored fields
// (unexported, json:"-", gomacro:"ignore") of supported builtin types to a struct leaves the JSON validators,
// the TypeScript and the Dart output unchanged — including when the struct has no other field.

import (
	"fmt"
	"os"
	"sort"
	"strings"
	"testing"

	an "github.com/benoitkugler/gomacro/analysis"
	gen "github.com/benoitkugler/gomacro/generator"
	"github.com/benoitkugler/gomacro/generator/dart"
	"github.com/benoitkugler/gomacro/generator/typescript"
)

func govcC09Source(metaFields string) string {
	return `package m

type Meta struct {
` + metaFields + `
}

type Payload struct {
	Name  string
	Extra Meta
	List  []Meta
}

type Row struct {
	Id   int64
	Data Payload
}
`
}

func govcC09Outputs(t *testing.T, metaFields string) map[string]string {
	root, err := os.MkdirTemp("/var/tmp", "govc-c09g-")
	if err != nil {
		t.Fatal(err)
	}
	defer os.RemoveAll(root)
	os.WriteFile(root+"/go.mod", []byte("module example.com/org/m\n\ngo 1.21\n"), 0o644)
	os.WriteFile(root+"/root.go", []byte(govcC09Source(metaFields)), 0o644)
	os.Setenv("GOFLAGS", "-mod=mod")
	os.Setenv("GOPROXY", "off")
	pkg, err := an.LoadSource(root + "/root.go")
	if err != nil {
		t.Fatal(err)
	}
	ana := an.NewAnalysisFromFile(pkg, root+"/root.go")
	out := map[string]string{}
	var validators []gen.Declaration
	for _, d := range Generate(ana) {
		if strings.Contains(d.Content, "FUNCTION gomacro_validate_json") {
			validators = append(validators, d)
		}
	}
	out["sql-validators"] = gen.WriteDeclarations(validators)
	out["typescript"] = gen.WriteDeclarations(typescript.Generate(ana))
	// one text per output file, in file name order (the files are written separately)
	var files []string
	for _, o := range dart.Generate(root, []*an.Analysis{ana}) {
		files = append(files, "=== "+strings.ReplaceAll(o.Filename, root, "<root>")+"\n"+gen.WriteDeclarations(o.Content))
	}
	sort.Strings(files)
	out["dart"] = strings.ReplaceAll(strings.Join(files, "\n"), root, "<root>")
	return out
}

func TestGovcHarness_IgnoredFieldsGenerators(t *testing.T) {
	cases := 0
	defer func() { fmt.Printf("GOVC-CASES %d\n", cases) }()
	ignored := []string{
		"cache map[string]int",
		"Hidden []string `json:\"-\"`",
		"Skipped bool `gomacro:\"ignore\"`",
		"Both int `json:\"both,omitempty\" gomacro:\"ignore\"`",
	}
	bases := []string{
		"",
		"A int",
		"A int `json:\"a\"`\nB string `json:\",omitempty\"`",
	}
	// the key of encoding/json reaches every output unchanged, punctuation included
	keyed := govcC09Outputs(t, "CT string `json:\"content-type\"`\nAL int `json:\"accept.lang,omitempty\"`")
	for target, wants := range map[string][]string{
		"typescript":     {"content-type:", "accept.lang:"},
		"dart":           {"json['content-type']", "json['accept.lang']"},
		"sql-validators": {"'content-type'", "'accept.lang'"},
	} {
		for _, w := range wants {
			cases++
			if !strings.Contains(keyed[target], w) {
				fmt.Printf("GOVC-FAIL {\"target\":%q,\"key\":%q}\n", target, w)
				t.Errorf("%s: the key %s of encoding/json does not appear in the output:\n%s", target, w, keyed[target])
			}
		}
	}
	for bi, base := range bases {
		ref := govcC09Outputs(t, base)
		if bi > 0 && !strings.Contains(ref["sql-validators"], "'A'") && !strings.Contains(ref["sql-validators"], "'a'") {
			t.Fatalf("reference validators do not mention the regular field:\n%s", ref["sql-validators"])
		}
		// each ignored field alone, in front and at the end, and all of them together
		var variants []string
		for _, ig := range ignored {
			variants = append(variants, ig+"\n"+base, base+"\n"+ig)
		}
		variants = append(variants, strings.Join(ignored, "\n")+"\n"+base)
		for _, v := range variants {
			got := govcC09Outputs(t, v)
			for _, target := range []string{"sql-validators", "typescript", "dart"} {
				cases++
				if got[target] != ref[target] {
					fmt.Printf("GOVC-FAIL {\"target\":%q,\"base\":%q,\"with\":%q}\n", target, base, v)
					t.Errorf("%s: adding ignored fields to struct{%s} changed the output\n--- reference:\n%s\n--- with %q:\n%s", target, base, ref[target], v, got[target])
				}
			}
		}
	}
}
