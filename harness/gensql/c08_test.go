package sql

// Bounded stand-in / counterexample search for C08: the schema emitted for one model file covering every
// column kind of the documented Go -> SQL mapping, parsed back into tables, columns and constraints and
// compared with a reference table written from the property statement (not from the generator).

import (
	"fmt"
	"os"
	"regexp"
	"strings"
	"testing"

	an "github.com/benoitkugler/gomacro/analysis"
	gen "github.com/benoitkugler/gomacro/generator"
)

const govcSchemaSrc = `package m

import "time"

type KI int

const (
	KI0 KI = iota
	KI1
	KI2
)

type KS string

const (
	KSa KS = "alpha"
	KSb KS = "beta"
)

type Small uint8

const (
	S0 Small = iota
	S1
)

type IdUserAccount int64
type IdTeam int64
type IdLinkRow int64

type Date time.Time

type Coord struct {
	X int
	Y KI
}

type Mixed struct {
	A int
	B string
}

type NullInt struct {
	Valid bool
	Int64 int64
}

type NullStr struct {
	String string
	Valid  bool
}

type NullT struct {
	Valid bool
	Time  time.Time
}

type NullD struct {
	Valid bool
	Date  Date
}

type OptTeam struct {
	Valid bool
	ID    IdTeam
}

type UserAccount struct {
	Id      IdUserAccount
	FBool   bool
	FInt    int
	FInt8   int8
	FInt16  int16
	FInt32  int32
	FInt64  int64
	FUint   uint
	FUint8  uint8
	FUint16 uint16
	FUint32 uint32
	FUint64 uint64
	FF32    float32
	FF64    float64
	FStr    string
	FTime   time.Time
	FDate   Date
	FBytes  []byte
	FInts   []int
	FStrs   []string
	FArr3   [3]int
	FEnumI  KI
	FEnumS  KS
	FEnums  []KI
	FSmall  Small
	FSmalls []Small
	FSmall3 [3]Small
	FCoord  Coord
	FMixed  Mixed
	FMixed2 Mixed
	FMap    map[string]int
	FNullI  NullInt
	FNullS  NullStr
	FNullT  NullT
	FNullD  NullD
	hidden  int
	guard   KI ` + "`gomacro-sql-guard:\"#[KI.KI1]\"`" + `
	Team    IdTeam
	Parent  IdUserAccount
	Boss    int64   ` + "`gomacro-sql-foreign:\"UserAccount\" gomacro-sql-on-delete:\"SET NULL\"`" + `
	OptT    OptTeam ` + "`gomacro-sql-foreign:\"Team\" gomacro-sql-on-delete:\"CASCADE\"`" + `
	Skipped int ` + "`json:\"-\"`" + `
}

type Team struct {
	Name   string
	Id     IdTeam
	FMixed Mixed
}

// shared primary key: the id column itself refers to another table
type Teacher struct {
	Id   IdTeam ` + "`gomacro-sql-on-delete:\"CASCADE\"`" + `
	Name string
}

type LinkRow struct {
	IdUserAccount IdUserAccount ` + "`gomacro-sql-on-delete:\"CASCADE\"`" + `
	IdTeam        IdTeam
}
`

func TestGovcHarness_Schema(t *testing.T) {
	root, err := os.MkdirTemp("/var/tmp", "govc-c08-")
	if err != nil {
		t.Fatal(err)
	}
	defer os.RemoveAll(root)
	os.WriteFile(root+"/go.mod", []byte("module example.com/org/m\n\ngo 1.21\n"), 0o644)
	os.WriteFile(root+"/root.go", []byte(govcSchemaSrc), 0o644)
	os.Setenv("GOFLAGS", "-mod=mod")
	os.Setenv("GOPROXY", "off")
	pkg, err := an.LoadSource(root + "/root.go")
	if err != nil {
		t.Fatal(err)
	}
	ana := an.NewAnalysisFromFile(pkg, root+"/root.go")
	out := gen.WriteDeclarations(Generate(ana))
	cases := 0
	defer func() { fmt.Printf("GOVC-CASES %d\n", cases) }()
	expect := func(what string, cond bool) {
		cases++
		if !cond {
			fmt.Printf("GOVC-FAIL {\"check\":%q}\n", what)
			t.Errorf("%s\n--- output:\n%s", what, out)
		}
	}
	norm := func(s string) string { return strings.Join(strings.Fields(s), " ") }

	// ---- parse CREATE TABLE statements
	reTable := regexp.MustCompile(`(?s)CREATE TABLE (\w+) \((.*?)\n\s*\);`)
	tables := map[string][]string{}
	var tableOrder []string
	for _, m := range reTable.FindAllStringSubmatch(out, -1) {
		var cols []string
		for _, l := range strings.Split(m[2], ",\n") {
			if l = norm(l); l != "" {
				cols = append(cols, l)
			}
		}
		tables[m[1]] = cols
		tableOrder = append(tableOrder, m[1])
	}
	// one table per struct of the file (11 structs), named snake-case-plural
	wantTables := []string{"coords", "link_rows", "mixeds", "null_ds", "null_ints", "null_strs", "null_ts", "opt_teams", "teachers", "teams", "user_accounts"}
	expect(fmt.Sprintf("one table per struct, snake-case plural (got %v)", tableOrder), len(tableOrder) == len(wantTables))
	for _, w := range wantTables {
		_, ok := tables[w]
		expect("table "+w+" is created", ok)
	}

	// ---- the big table: one column per exported or guard field, in field order, typed by the mapping
	want := []string{
		"Id serial PRIMARY KEY",
		"FBool boolean NOT NULL",
		"FInt integer NOT NULL",
		"FInt8 integer NOT NULL",
		"FInt16 smallint NOT NULL",
		"FInt32 integer NOT NULL",
		"FInt64 integer NOT NULL",
		"FUint integer NOT NULL",
		"FUint8 smallint NOT NULL",
		"FUint16 integer NOT NULL",
		"FUint32 integer NOT NULL",
		"FUint64 integer NOT NULL",
		"FF32 real NOT NULL",
		"FF64 real NOT NULL",
		"FStr text NOT NULL",
		"FTime timestamp (0) with time zone NOT NULL",
		"FDate date NOT NULL",
		"FBytes bytea NOT NULL",
		"FInts integer[]",
		"FStrs text[]",
		"FArr3 integer[] CHECK (array_length(FArr3, 1) = 3) NOT NULL",
		"FEnumI integer CHECK (FEnumI IN (0, 1, 2)) NOT NULL",
		"FEnumS text CHECK (FEnumS IN ('alpha', 'beta')) NOT NULL",
		"FEnums integer[]",
		"FSmall smallint CHECK (FSmall IN (0, 1)) NOT NULL",
		"FSmalls smallint[]",
		"FSmall3 smallint[] CHECK (array_length(FSmall3, 1) = 3) NOT NULL",
		"FCoord Coord NOT NULL",
		"FMixed jsonb NOT NULL",
		"FMixed2 jsonb NOT NULL",
		"FMap jsonb NOT NULL",
		"FNullI integer",
		"FNullS text",
		"FNullT timestamp (0) with time zone",
		"FNullD date",
		"guard integer CHECK (guard IN (0, 1, 2)) NOT NULL",
		"Team integer NOT NULL",
		"Parent integer NOT NULL",
		"Boss integer NOT NULL",
		"OptT integer",
		"Skipped integer NOT NULL",
	}
	got := tables["user_accounts"]
	expect(fmt.Sprintf("user_accounts has %d columns (got %d)", len(want), len(got)), len(got) == len(want))
	for i, w := range want {
		g := "<missing>"
		if i < len(got) {
			g = got[i]
		}
		expect(fmt.Sprintf("column %d is %q (got %q)", i, w, g), g == w)
	}
	// the id field is the primary key wherever it stands
	expect("teams: Name first, Id serial PRIMARY KEY second", len(tables["teams"]) == 3 && tables["teams"][0] == "Name text NOT NULL" && tables["teams"][1] == "Id serial PRIMARY KEY")
	// the same column name with the same jsonb type in two tables: each table keeps its own CHECK
	expect("teams.FMixed has its own validator CHECK", strings.Count(out, "ALTER TABLE teams ADD CONSTRAINT FMixed_gomacro CHECK (") == 1)

	// ---- composite type declaration for the local all-integer struct
	expect("composite type declared once", strings.Count(out, "CREATE TYPE Coord AS (X integer, Y integer);") == 1)

	// ---- jsonb columns carry a CHECK calling their validator
	reJSON := regexp.MustCompile(`ALTER TABLE user_accounts ADD CONSTRAINT (\w+)_gomacro CHECK \((\w+)\((\w+)\)\);`)
	jsonCols := map[string]string{}
	for _, m := range reJSON.FindAllStringSubmatch(out, -1) {
		expect("validator constraint names its own column", m[1] == m[3])
		jsonCols[m[1]] = m[2]
	}
	for _, c := range []string{"FMixed", "FMixed2", "FMap"} {
		fn, ok := jsonCols[c]
		expect("jsonb column "+c+" has a validator CHECK", ok)
		expect("validator "+fn+" of "+c+" is defined", ok && strings.Contains(out, "FUNCTION "+fn+" ("))
	}
	expect("only jsonb columns have validator CHECKs", len(jsonCols) == 3)

	// ---- guard fields: default plus equality CHECK
	expect("guard default", strings.Count(out, "ALTER TABLE user_accounts ALTER COLUMN guard SET DEFAULT 1 ") == 1 && strings.Count(out, "SET DEFAULT") == 1)
	expect("guard equality check", strings.Count(out, "ALTER TABLE user_accounts ADD CHECK(guard = 1 ") == 1 && strings.Count(out, "ADD CHECK(") == 1)

	// ---- foreign keys: exactly one constraint per foreign-key field, to the right table, with the tagged action
	reFK := regexp.MustCompile(`ALTER TABLE (\w+) ADD FOREIGN KEY\((\w+)\) REFERENCES (\w+) ?([^;]*);`)
	type fk struct{ table, col, target, action string }
	var fks []fk
	for _, m := range reFK.FindAllStringSubmatch(out, -1) {
		fks = append(fks, fk{m[1], m[2], m[3], norm(m[4])})
	}
	wantFK := []fk{
		{"user_accounts", "Team", "teams", ""},
		{"user_accounts", "Boss", "user_accounts", "ON DELETE SET NULL"},
		{"user_accounts", "OptT", "teams", "ON DELETE CASCADE"},
		{"link_rows", "IdUserAccount", "user_accounts", "ON DELETE CASCADE"},
		{"link_rows", "IdTeam", "teams", ""},
		{"opt_teams", "ID", "teams", ""},
		{"teachers", "Id", "teams", "ON DELETE CASCADE"},
	}
	expect(fmt.Sprintf("exactly %d foreign key constraints (got %v)", len(wantFK), fks), len(fks) == len(wantFK))
	for _, w := range wantFK {
		n := 0
		for _, g := range fks {
			if g == w {
				n++
			}
		}
		expect(fmt.Sprintf("exactly one FOREIGN KEY %v", w), n == 1)
	}
	// an ID of the table itself (Id, Parent on user_accounts without tag) is not a foreign key
	for _, g := range fks {
		expect("no foreign key on "+g.table+"."+g.col+" towards itself without a tag", !(g.table == "user_accounts" && (g.col == "Id" || g.col == "Parent")))
	}
}
