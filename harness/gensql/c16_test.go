package sql

// Bounded stand-in / counterexample search for the C16 kernel: comment directives through the SQL generator.

import (
	"fmt"
	"os"
	"strings"
	"testing"

	an "github.com/benoitkugler/gomacro/analysis"
	ansql "github.com/benoitkugler/gomacro/analysis/sql"
	gen "github.com/benoitkugler/gomacro/generator"
)

const govcDirectivesSrc = `package m

type K int

const (
	K0 K = iota
	K1
)

type S string

const (
	Sa S = "alpha"
	Sb S = "it"
	// a value spelled like a table struct of this file: the SQL literal must not go through the table-name replacer
	Sc S = "Item"
)

type IdItem int64
type IdItemBis int64

// gomacro:SQL ADD CHECK(Kind = #[K.K1] OR Name = #[S.Sa])
// gomacro:SQL ADD FOREIGN KEY (Other) REFERENCES Item ON DELETE CASCADE
// gomacro:SQL ADD UNIQUE(Name)
// gomacro:SQL ADD CHECK(Name <> #[S.Sc])
// gomacro:SQL _SELECT KEY (Kind)
// gomacro:SQL CREATE INDEX ItemBis_idx ON Item (Kind)
// gomacro:SQL CREATE INDEX idx_Item ON Item (Name)
// gomacro:SQL ADD CHECK (Item.Kind >= 0)
// gomacro:SQL ADD UNIQUE(Id)
// gomacro:QUERY SetKind UPDATE Item SET Kind = $k$ WHERE Id = $id$ AND Kind = $k$
// gomacro:QUERY Twice UPDATE Item SET Name = $n$ WHERE Name = $n$ AND Kind = $kind$ AND Id = $id$
type Item struct {
	Id    IdItem
	Kind  K
	Name  S
	Other IdItemBis
	Lab   S ` + "`gomacro-sql-guard:\"#[S.Sb]\"`" + `
}

// the same directive text as on Item
// gomacro:SQL ADD UNIQUE(Id)
type ItemBis struct {
	Id IdItemBis
}
`

func TestGovcHarness_Directives(t *testing.T) {
	root, err := os.MkdirTemp("/var/tmp", "govc-c16-")
	if err != nil {
		t.Fatal(err)
	}
	defer os.RemoveAll(root)
	os.WriteFile(root+"/go.mod", []byte("module example.com/org/m\n\ngo 1.21\n"), 0o644)
	os.WriteFile(root+"/root.go", []byte(govcDirectivesSrc), 0o644)
	os.Setenv("GOFLAGS", "-mod=mod")
	os.Setenv("GOPROXY", "off")
	pkg, err := an.LoadSource(root + "/root.go")
	if err != nil {
		t.Fatal(err)
	}
	ana := an.NewAnalysisFromFile(pkg, root+"/root.go")
	out := gen.WriteDeclarations(Generate(ana))
	cases := 0
	defer func() { fmt.Printf("GOVC-CASES %d\n", cases) }()
	expect := func(what string, cond bool) {
		cases++
		if !cond {
			fmt.Printf("GOVC-FAIL {\"check\":%q}\n", what)
			t.Errorf("%s\n--- output:\n%s", what, out)
		}
	}
	expect("integer enum placeholder replaced by the number as written", strings.Contains(out, "Kind = 1 "))
	expect("string enum placeholder replaced by a single-quoted literal", strings.Contains(out, "Name = 'alpha'") && !strings.Contains(out, `"alpha"`))
	expect("guard value of a string enum single-quoted", strings.Contains(out, "SET DEFAULT 'it'") && !strings.Contains(out, `"it"`))
	expect("a string enum value spelled like a table struct is kept verbatim", strings.Contains(out, "Name <> 'Item'"))
	expect("no placeholder left", !strings.Contains(out, "#["))
	expect("name after REFERENCES replaced by the SQL table name", strings.Contains(out, "REFERENCES items ON DELETE CASCADE"))
	expect("ADD constraint attached to the table of its struct", strings.Contains(out, "ALTER TABLE items ADD CHECK") && strings.Contains(out, "ALTER TABLE items ADD UNIQUE"))
	expect("whole-word table names replaced, other words kept", strings.Contains(out, "CREATE INDEX ItemBis_idx ON items (Kind);"))
	expect("a table name inside a longer identifier is not replaced", strings.Contains(out, "CREATE INDEX idx_Item ON items (Name);"))
	expect("a table name touching punctuation is replaced", strings.Contains(out, "ALTER TABLE items ADD CHECK (items.Kind >= 0);"))
	expect("the same directive on two structs yields one statement per table", strings.Contains(out, "ALTER TABLE items ADD UNIQUE(Id);") && strings.Contains(out, "ALTER TABLE item_biss ADD UNIQUE(Id);"))
	expect("select keys never reach the SQL output", !strings.Contains(out, "_SELECT"))
	expect("queries never reach the SQL output", !strings.Contains(out, "SetKind"))
	// custom queries: placeholders numbered by first occurrence, equal names sharing a number, one input per name
	for _, ta := range ansql.SelectTables(ana) {
		for _, q := range ta.CustomQueries {
			switch q.GoFunctionName {
			case "SetKind":
				expect("SetKind: $k$ -> $1 (twice), $id$ -> $2: "+q.Query, q.Query == "UPDATE Item SET Kind = $1 WHERE Id = $2 AND Kind = $1" && len(q.Inputs) == 2 && q.Inputs[0].VarName == "k" && q.Inputs[1].VarName == "id")
			case "Twice":
				expect("Twice: a repeated name before new ones: $n$ -> $1 (twice), $kind$ -> $2, $id$ -> $3: "+q.Query, q.Query == "UPDATE Item SET Name = $1 WHERE Name = $1 AND Kind = $2 AND Id = $3" && len(q.Inputs) == 3 && q.Inputs[1].VarName == "kind" && q.Inputs[2].VarName == "id")
			}
		}
	}
}
