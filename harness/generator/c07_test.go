package generator

// Bounded determinism check of Cache.Imports: Go randomises map iteration per loop, so repeated
// calls on the same cache expose any dependence on it.

import (
	"fmt"
	"go/token"
	"go/types"
	"strings"
	"testing"

	"github.com/benoitkugler/gomacro/analysis"
)

type govcNamed struct{ n *types.Named }

func (g govcNamed) Type() types.Type { return g.n }

var _ analysis.Type = govcNamed{}

func TestGovcHarness_CacheImports(t *testing.T) {
	cases := 0
	defer func() { fmt.Printf("GOVC-CASES %d\n", cases) }()
	for npk := 1; npk <= 5; npk++ {
		c := make(Cache)
		for i := 0; i < npk; i++ {
			pkg := types.NewPackage(fmt.Sprintf("example.com/m/p%d", i), fmt.Sprintf("p%d", i))
			for j := 0; j < 2; j++ {
				n := types.NewNamed(types.NewTypeName(token.NoPos, pkg, fmt.Sprintf("T%d", j), nil), types.Typ[types.Int], nil)
				c.Check(govcNamed{n})
			}
		}
		first := strings.Join(c.Imports(), "\n")
		for rep := 0; rep < 200; rep++ {
			cases++
			if got := strings.Join(c.Imports(), "\n"); got != first {
				fmt.Printf("GOVC-FAIL {\"packages\":%d} two calls of Cache.Imports on the same cache returned %q and %q\n", npk, first, got)
				t.Fatalf("Cache.Imports is not deterministic with %d packages", npk)
			}
		}
	}
}
