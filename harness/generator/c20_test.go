package generator

// Bounded stand-in / counterexample search for the C20 contracts: stub tools first on PATH,
// many goroutines hammering one shared Formatters cache (run under the race detector).

import (
	"fmt"
	"os"
	"path/filepath"
	"strings"
	"sync"
	"testing"
)

const govcStub = `#!/bin/sh
echo "${0##*/} $*" >> "$GOVC_LOG"
case "$*" in
  *--help*|-v|*" -v") exit 0 ;;
esac
if [ -f "$GOVC_DIR/fail.${0##*/}" ]; then exit 1; fi
exit 0
`

const govcWhich = `#!/bin/sh
echo "which $*" >> "$GOVC_LOG"
if [ -x "$GOVC_DIR/$1" ]; then exit 0; fi
exit 1
`

// state of a tool: 0 installed, 1 missing, 2 installed but failing on real runs
func govcSetup(t *testing.T, states [4]int) (dir, log string) {
	dir, err := os.MkdirTemp("/var/tmp", "govc-c20-")
	if err != nil {
		t.Fatal(err)
	}
	log = filepath.Join(dir, "log.txt")
	os.WriteFile(log, nil, 0o644)
	os.WriteFile(filepath.Join(dir, "which"), []byte(govcWhich), 0o755)
	for i, tool := range []string{"goimports", "dart", "npx", "pg_format"} {
		if states[i] == 1 {
			continue
		}
		os.WriteFile(filepath.Join(dir, tool), []byte(govcStub), 0o755)
		if states[i] == 2 {
			os.WriteFile(filepath.Join(dir, "fail."+tool), nil, 0o644)
		}
	}
	os.Setenv("PATH", dir)
	os.Setenv("GOVC_LOG", log)
	os.Setenv("GOVC_DIR", dir)
	return dir, log
}

func govcCount(log, prefix string) int {
	data, _ := os.ReadFile(log)
	n := 0
	for _, l := range strings.Split(string(data), "\n") {
		if strings.HasPrefix(l, prefix) {
			n++
		}
	}
	return n
}

func TestGovcHarness_Formatters(t *testing.T) {
	oldPath := os.Getenv("PATH")
	defer os.Setenv("PATH", oldPath)
	var configs [][4]int
	for a := 0; a < 3; a++ {
		for b := 0; b < 3; b++ {
			for c := 0; c < 3; c++ {
				for d := 0; d < 3; d++ {
					configs = append(configs, [4]int{a, b, c, d})
				}
			}
		}
	}
	if os.Getenv("GOVC_TIER") != "thorough" {
		// every pair of tools differs in presence in at least one configuration (a result cached in the wrong slot shows)
		configs = [][4]int{{0, 0, 0, 0}, {1, 1, 1, 1}, {2, 2, 2, 2}, {0, 1, 2, 0}, {2, 0, 1, 1}, {1, 2, 0, 2}, {0, 0, 1, 0}, {0, 0, 0, 1}, {1, 0, 0, 0}, {0, 1, 0, 0}}
	}
	probes := []string{"which goimports", "dart format --help", "npx prettier -v", "pg_format -v"}
	runs := []string{"goimports -w ", "dart format /", "npx prettier --write ", "pg_format -i "}
	formats := []Format{Go, Dart, TypeScript, Psql}
	cases := 0
	defer func() { fmt.Printf("GOVC-CASES %d\n", cases) }()
	const perFormat = 6
	for _, cfg := range configs {
		cases++
		dir, log := govcSetup(t, cfg)
		var fmts Formatters // the zero value is a ready-to-use cache
		file := filepath.Join(dir, "out.txt")
		os.WriteFile(file, []byte("content"), 0o644)
		var wg sync.WaitGroup
		errs := make([][]error, 4)
		for i := range errs {
			errs[i] = make([]error, perFormat)
		}
		for k := 0; k < perFormat; k++ {
			for i := range formats {
				wg.Add(1)
				go func(i, k int) {
					defer wg.Done()
					errs[i][k] = fmts.FormatFile(formats[i], file)
				}(i, k)
			}
		}
		wg.Add(1)
		go func() { defer wg.Done(); _ = fmts.FormatFile(NoFormat, file); _ = fmts.FormatFile(Format(99), file) }()
		wg.Wait()
		fail := func(format string, a ...interface{}) {
			fmt.Printf("GOVC-FAIL {\"tools\":%v} %s\n", cfg, fmt.Sprintf(format, a...))
			os.RemoveAll(dir)
			t.Fatalf(format, a...)
		}
		for i := range formats {
			if n := govcCount(log, probes[i]); n > 1 {
				fail("tool %d probed %d times on one cache", i, n)
			}
			n := govcCount(log, runs[i])
			switch cfg[i] {
			case 0:
				if n != perFormat {
					fail("tool %d present: %d formatter runs for %d requests", i, n, perFormat)
				}
				for _, e := range errs[i] {
					if e != nil {
						fail("tool %d present and working: error %v", i, e)
					}
				}
			case 1:
				if n != 0 {
					fail("tool %d absent: %d formatter runs", i, n)
				}
				for _, e := range errs[i] {
					if e != nil {
						fail("tool %d absent: request failed with %v", i, e)
					}
				}
			case 2:
				if n != perFormat {
					fail("tool %d present (failing): %d formatter runs for %d requests", i, n, perFormat)
				}
				for _, e := range errs[i] {
					if e == nil {
						fail("tool %d fails but the request reports success", i)
					}
				}
			}
		}
		if data, _ := os.ReadFile(file); string(data) != "content" {
			fail("file modified by FormatFile itself")
		}
		os.RemoveAll(dir)
	}
}
