package generator

// Bounded stand-in / counterexample search for the C19 contract of WriteDeclarations.

import (
	"encoding/json"
	"fmt"
	"math/rand"
	"os"
	"sort"
	"strconv"
	"strings"
	"testing"
)

// reference: what the property statement says
func govcWant(decls []Declaration) string {
	prio := map[string]bool{}
	content := map[string]string{}
	for _, d := range decls {
		if d.Priority {
			prio[d.ID] = true
		}
		content[d.ID] = d.Content
	}
	var ids []string
	for id := range content {
		ids = append(ids, id)
	}
	sort.Strings(ids)
	var b strings.Builder
	for _, id := range ids {
		if prio[id] {
			b.WriteString(content[id] + "\n")
		}
	}
	for _, id := range ids {
		if !prio[id] {
			b.WriteString(content[id] + "\n")
		}
	}
	return b.String()
}

func govcCheckDecls(decls []Declaration) string {
	in := append([]Declaration(nil), decls...)
	got := WriteDeclarations(in)
	if want := govcWant(decls); got != want {
		return fmt.Sprintf("WriteDeclarations(%v) = %q, want %q", decls, got, want)
	}
	return ""
}

func TestGovcHarness_WriteDeclarations(t *testing.T) {
	if rp := os.Getenv("GOVC_REPLAY"); rp != "" {
		var decls []Declaration
		if err := json.Unmarshal([]byte(rp), &decls); err != nil {
			t.Fatal(err)
		}
		if msg := govcCheckDecls(decls); msg != "" {
			fmt.Printf("GOVC-FAIL %s\n", rp)
			t.Fatal(msg)
		}
		return
	}
	ids := []string{"a", "ab", "b"}
	// equal IDs carry equal content: content is a function of the ID
	contentOf := map[string]string{"a": "x", "ab": "y\ny", "b": "x"}
	var alphabet []Declaration
	for _, id := range ids {
		for _, p := range []bool{false, true} {
			alphabet = append(alphabet, Declaration{ID: id, Content: contentOf[id], Priority: p})
		}
	}
	cases := 0
	defer func() { fmt.Printf("GOVC-CASES %d\n", cases) }()
	maxLen := 4
	if os.Getenv("GOVC_TIER") == "thorough" {
		maxLen = 5
	}
	var cur []Declaration
	var rec func() bool
	rec = func() bool {
		cases++
		if msg := govcCheckDecls(cur); msg != "" {
			b, _ := json.Marshal(cur)
			fmt.Printf("GOVC-FAIL %s\n", b)
			t.Error(msg)
			return true
		}
		if len(cur) == maxLen {
			return false
		}
		for _, d := range alphabet {
			cur = append(cur, d)
			if rec() {
				return true
			}
			cur = cur[:len(cur)-1]
		}
		return false
	}
	if rec() { // every list up to maxLen over the alphabet = every permutation of every multiset
		return
	}
	// longer random lists (ties between many equal elements need >12 elements to defeat insertion sort)
	seed, _ := strconv.ParseInt(os.Getenv("GOVC_SEED"), 10, 64)
	rng := rand.New(rand.NewSource(seed))
	for it := 0; it < 300; it++ {
		n := 13 + rng.Intn(40)
		var l []Declaration
		for i := 0; i < n; i++ {
			id := "id" + strconv.Itoa(rng.Intn(12))
			l = append(l, Declaration{ID: id, Content: "c" + id, Priority: rng.Intn(2) == 0})
		}
		cases++
		if msg := govcCheckDecls(l); msg != "" {
			b, _ := json.Marshal(l)
			fmt.Printf("GOVC-FAIL %s\n", b)
			t.Error(msg)
			return
		}
	}
}
