package analysis

// Bounded stand-in / counterexample search for the C17 contracts (injected with go test -overlay;
// never written into /repo). Role: find a concrete failing input for a failed proof obligation,
// or stand in (labelled bounded, never "proved") when the VC generator cannot handle a changed shape.

import (
	"encoding/json"
	"fmt"
	"os"
	"path/filepath"
	"strings"
	"testing"

	"golang.org/x/tools/go/packages"
)

func govcIsDirAncestor(r, p string) bool {
	if r == p {
		return true
	}
	if len(r) == 0 || len(r) >= len(p) || !strings.HasPrefix(p, r) {
		return false
	}
	return p[len(r)] == '/' || r[len(r)-1] == '/'
}

func govcCheckCommonPrefix(paths []string) (msg string) {
	defer func() {
		if r := recover(); r != nil {
			msg = fmt.Sprintf("runtime panic: %v", r)
		}
	}()
	res := commonPrefix(append([]string(nil), paths...))
	if res == "" {
		allAbs := true
		for _, p := range paths {
			if len(p) == 0 || p[0] != '/' {
				allAbs = false
			}
		}
		if allAbs {
			return "commonPrefix of absolute paths is empty (the root \"/\" is a common ancestor)"
		}
		return ""
	}
	for _, p := range paths {
		if !govcIsDirAncestor(res, p) {
			return fmt.Sprintf("commonPrefix=%q is not an ancestor directory of %q", res, p)
		}
	}
	return ""
}

func TestGovcHarness_commonPrefix(t *testing.T) {
	if rp := os.Getenv("GOVC_REPLAY"); rp != "" {
		var paths []string
		if err := json.Unmarshal([]byte(rp), &paths); err != nil {
			t.Fatal(err)
		}
		if msg := govcCheckCommonPrefix(paths); msg != "" {
			fmt.Printf("GOVC-FAIL %s\n", rp)
			t.Fatal(msg)
		}
		return
	}
	comps := []string{"a", "ab", "b"}
	var all []string
	// all absolute paths with 1..3 components over the alphabet, plus the root
	all = append(all, "/")
	var rec func(prefix string, depth int)
	rec = func(prefix string, depth int) {
		if depth == 0 {
			return
		}
		for _, c := range comps {
			p := prefix + "/" + c
			all = append(all, p)
			rec(p, depth-1)
		}
	}
	rec("", 3)
	cases := 0
	report := func(paths []string) bool {
		cases++
		if msg := govcCheckCommonPrefix(paths); msg != "" {
			b, _ := json.Marshal(paths)
			fmt.Printf("GOVC-FAIL %s\n", b)
			t.Error(msg)
			return true
		}
		return false
	}
	defer func() { fmt.Printf("GOVC-CASES %d\n", cases) }()
	for _, a := range all {
		if report([]string{a}) {
			return
		}
		for _, b := range all {
			if report([]string{a, b}) {
				return
			}
		}
	}
	// a directory, something nested in it, and a sibling whose name extends it with a character sorting before,
	// at or after the separator: every order of the three
	for _, base := range all {
		if base == "/" {
			continue
		}
		for _, ext := range []string{"-v2", ".old", "0", "b", "_x"} {
			trio := []string{base, base + "/sub", base + ext}
			for _, perm := range [][3]int{{0, 1, 2}, {0, 2, 1}, {1, 0, 2}, {1, 2, 0}, {2, 0, 1}, {2, 1, 0}} {
				if report([]string{trio[perm[0]], trio[perm[1]], trio[perm[2]]}) {
					return
				}
			}
		}
	}
	if os.Getenv("GOVC_TIER") == "thorough" {
		for _, a := range all {
			for _, b := range all {
				for _, c := range all {
					if report([]string{a, b, c}) {
						return
					}
				}
			}
		}
	} else {
		for i := 0; i < len(all); i += 3 {
			for j := 1; j < len(all); j += 4 {
				for k := 2; k < len(all); k += 5 {
					if report([]string{all[i], all[j], all[k]}) {
						return
					}
				}
			}
		}
	}
}

func TestGovcHarness_selectByFile(t *testing.T) {
	files := []string{"/m/a/x.go", "/m/a/y.go", "/m/ab/x.go", "/m/b/z.go"}
	mk := func(fs ...string) *packages.Package { return &packages.Package{GoFiles: fs} }
	layouts := [][]*packages.Package{
		{mk(files[0], files[1]), mk(files[2]), mk(files[3])},
		{mk(files[2]), mk(files[0], files[1])},
		{mk(), mk(files[3])},
		{},
	}
	cases := 0
	defer func() { fmt.Printf("GOVC-CASES %d\n", cases) }()
	for li, pkgs := range layouts {
		for _, f := range append(files, "/m/a/missing.go", "x.go") {
			cases++
			got := selectByFile(pkgs, f)
			var want *packages.Package
		search:
			for _, p := range pkgs {
				for _, g := range p.GoFiles {
					if g == f {
						want = p
						break search
					}
				}
			}
			if got != want {
				fmt.Printf("GOVC-FAIL {\"layout\":%d,\"file\":%q}\n", li, f)
				t.Fatalf("selectByFile(layout %d, %q) returned the wrong package", li, f)
			}
		}
	}
}

// LoadSources / LoadSource on real files: a scratch module with sibling directories sharing a name
// prefix, nested packages, duplicates, relative paths; plus the error cases.
func TestGovcHarness_LoadSources(t *testing.T) {
	root, err := os.MkdirTemp("/var/tmp", "govc-c17-")
	if err != nil {
		t.Fatal(err)
	}
	defer os.RemoveAll(root)
	root, _ = filepath.EvalSymlinks(root)
	write := func(rel, content string) string {
		p := filepath.Join(root, rel)
		os.MkdirAll(filepath.Dir(p), 0o755)
		if err := os.WriteFile(p, []byte(content), 0o644); err != nil {
			t.Fatal(err)
		}
		return p
	}
	write("go.mod", "module example.com/m\n\ngo 1.21\n")
	fa := write("x/ab/a.go", "package ab\n\ntype A int\n")
	fa2 := write("x/ab/a2.go", "package ab\n\ntype A2 int\n")
	fb := write("x/ac/b.go", "package ac\n\ntype B int\n")
	fn := write("x/ab/sub/n.go", "package sub\n\ntype N int\n")
	ff := write("x/foo/f.go", "package foo\n\ntype F int\n")
	fg := write("x/foobar/g.go", "package foobar\n\ntype G int\n")
	bad := write("x/bad/bad.go", "package bad\n\nvar X int = \"s\"\n")
	txt := write("x/ab/readme.txt", "hello\n")
	// a well-typed package importing (transitively) an ill-typed one that is not listed itself
	write("x/broken/leaf/leaf.go", "package leaf\n\nvar X int = \"s\"\n")
	write("x/broken/mid/mid.go", "package mid\n\nimport _ \"example.com/m/x/broken/leaf\"\n\ntype M int\n")
	imp := write("x/broken/top/top.go", "package top\n\nimport _ \"example.com/m/x/broken/mid\"\n\ntype T int\n")
	os.Setenv("GOFLAGS", "-mod=mod")
	os.Setenv("GOPROXY", "off")
	cases := 0
	defer func() { fmt.Printf("GOVC-CASES %d\n", cases) }()
	fail := func(in []string, format string, a ...interface{}) {
		b, _ := json.Marshal(in)
		fmt.Printf("GOVC-FAIL %s\n", b)
		t.Fatalf(format, a...)
	}
	// non-clean absolute spellings of existing files
	unclean1 := filepath.Dir(fa) + "//a.go"
	unclean2 := filepath.Dir(fa) + "/./a.go"
	unclean3 := filepath.Dir(fa) + "/sub/../a.go"
	good := [][]string{{fa}, {fa, fb}, {fb, fa}, {ff, fg}, {fg, ff}, {fa, fn}, {fn, fa}, {fa, fa2}, {fa, fa}, {fa, fb, fn, ff, fg},
		{unclean1}, {unclean2, fb}, {fb, unclean3}}
	for _, in := range good {
		cases++
		var (
			pkgs []*packages.Package
			dir  string
			err  error
		)
		func() {
			defer func() {
				if r := recover(); r != nil {
					fail(in, "LoadSources(%v) crashed: %v", in, r)
				}
			}()
			pkgs, dir, err = LoadSources(in)
		}()
		if err != nil {
			fail(in, "LoadSources(%v): unexpected error %v", in, err)
		}
		if len(pkgs) != len(in) {
			fail(in, "LoadSources(%v): %d packages for %d files", in, len(pkgs), len(in))
		}
		for i, f := range in {
			f = filepath.Clean(f)
			found := false
			if pkgs[i] != nil {
				for _, g := range pkgs[i].GoFiles {
					if g == f {
						found = true
					}
				}
			}
			if !found {
				fail(in, "LoadSources(%v): package %d does not contain %s", in, i, f)
			}
			if !govcIsDirAncestor(dir, filepath.Dir(f)) {
				fail(in, "LoadSources(%v): root %q is not an ancestor of %s", in, dir, f)
			}
		}
		if fi, err := os.Stat(dir); err != nil || !fi.IsDir() {
			fail(in, "LoadSources(%v): root %q is not an existing directory", in, dir)
		}
	}
	// error cases: reported, not crashed
	bads := [][]string{{filepath.Join(root, "x/ab/missing.go")}, {fa, filepath.Join(root, "nope/n.go")}, {bad}, {fa, bad}, {txt}, {imp}, {fa, imp}}
	for _, in := range bads {
		cases++
		func() {
			defer func() {
				if r := recover(); r != nil {
					fail(in, "LoadSources(%v) crashed: %v", in, r)
				}
			}()
			_, _, err := LoadSources(in)
			if err == nil {
				fail(in, "LoadSources(%v): error expected", in)
			}
		}()
	}
	// LoadSource
	cases++
	p, err := LoadSource(fa)
	if err != nil || p == nil {
		fail([]string{fa}, "LoadSource(%s): %v", fa, err)
	}
	// relative path
	cases++
	cwd, _ := os.Getwd()
	os.Chdir(filepath.Join(root, "x"))
	pk, _, err := LoadSources([]string{"ab/a.go", "ac/b.go"})
	os.Chdir(cwd)
	if err != nil || len(pk) != 2 {
		fail([]string{"ab/a.go", "ac/b.go"}, "LoadSources(relative): %v", err)
	}
}
