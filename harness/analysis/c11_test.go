package analysis

// Bounded stand-in / counterexample search for the C11 contracts.

import (
	"fmt"
	"go/types"
	"os"
	"sort"
	"strings"
	"testing"
)

const govcUnionSrc = `package m

import "example.com/org/m/sub"

type Shape interface{ isShape() }
type Animal interface{ isAnimal() }
type Wide interface{ isShape(); isAnimal() }

type Circle struct{ R int }
type Dog struct{ Name string }
type Both struct{ N int }
type Num int
type List []string
type Sub interface{ isShape() }

func (Circle) isShape()  {}
func (Dog) isAnimal()    {}
func (Both) isShape()    {}
func (Both) isAnimal()   {}
func (Num) isShape()     {}
func (List) isAnimal()   {}

type Holder struct {
	S  Shape
	A  []Animal
	W  map[string]Wide
	B  Both
	C  Circle
	X  sub.Ext
	SI sub.Iface
}

type OnlyTop struct{ D Dog }

// a member reached directly first (Holder.C), through an alias later
type CAlias = Circle
type ViaAlias struct {
	A  CAlias
	AS []CAlias
}
`

// same package, another file: declarations that are not analysed themselves but are candidates
const govcUnionOther = `package m

type Empty interface{ nobody() }
type Marker interface{}
type Ptr interface{ ptrOnly() }
type PtrRecv struct{}

func (*PtrRecv) ptrOnly() {}
`

const govcUnionSub = `package sub

type Iface interface{ isI() }
type Ext struct{}
type Other struct{}

func (Ext) isI()   {}
func (Other) isI() {}
`

func TestGovcHarness_Unions(t *testing.T) {
	root, err := os.MkdirTemp("/var/tmp", "govc-c11-")
	if err != nil {
		t.Fatal(err)
	}
	defer os.RemoveAll(root)
	os.WriteFile(root+"/go.mod", []byte("module example.com/org/m\n\ngo 1.21\n"), 0o644)
	os.MkdirAll(root+"/sub", 0o755)
	os.WriteFile(root+"/sub/sub.go", []byte(govcUnionSub), 0o644)
	os.WriteFile(root+"/root.go", []byte(govcUnionSrc), 0o644)
	os.WriteFile(root+"/other.go", []byte(govcUnionOther), 0o644)
	os.Setenv("GOFLAGS", "-mod=mod")
	os.Setenv("GOPROXY", "off")
	pa, err := LoadSource(root + "/root.go")
	if err != nil {
		t.Fatal(err)
	}
	cases := 0
	defer func() { fmt.Printf("GOVC-CASES %d\n", cases) }()
	fail := func(format string, a ...interface{}) {
		fmt.Printf("GOVC-FAIL %q\n", fmt.Sprintf(format, a...))
		t.Fatalf(format, a...)
	}
	// oracle straight from go/types
	oracle := func(p *types.Package) map[string][]string {
		out := map[string][]string{}
		sc := p.Scope()
		var named []*types.Named
		for _, n := range sc.Names() {
			if tn, ok := sc.Lookup(n).(*types.TypeName); ok {
				if nt, ok := tn.Type().(*types.Named); ok {
					named = append(named, nt)
				}
			}
		}
		for _, c := range named {
			itf, ok := c.Underlying().(*types.Interface)
			if !ok {
				continue
			}
			for _, m := range named {
				if _, isItf := m.Underlying().(*types.Interface); isItf {
					continue
				}
				if types.Implements(m, itf) {
					out[c.Obj().Name()] = append(out[c.Obj().Name()], m.Obj().Name())
				}
			}
		}
		return out
	}
	for _, pk := range []*types.Package{pa.Types, pa.Imports["example.com/org/m/sub"].Types} {
		var got map[string][]string
		if pk == pa.Types {
			got = govcUnionNames(fetchPkgUnions(pa))
		} else {
			got = govcUnionNames(fetchPkgUnions(pa.Imports["example.com/org/m/sub"]))
		}
		want := oracle(pk)
		cases++
		if fmt.Sprint(got) != fmt.Sprint(want) {
			fail("unions of package %s: got %v, want %v", pk.Name(), got, want)
		}
	}
	// struct nodes report exactly the analysed unions that list them, in name order
	for rep := 0; rep < 5; rep++ {
		ana := NewAnalysisFromFile(pa, root+"/root.go")
		analysed := map[string][]string{} // union -> members
		for _, ty := range ana.Types {
			if u, ok := ty.(*Union); ok {
				for _, m := range u.Members {
					analysed[u.name.String()] = append(analysed[u.name.String()], LocalName(m))
				}
			}
		}
		// every struct node REACHABLE from the result (as a table value, a field, an element, a key, a member,
		// an underlying type; through aliases or not), not only the table values
		reach := map[Type]bool{}
		var structs []*Struct
		var walk func(n Type)
		walk = func(n Type) {
			if n == nil || reach[n] {
				return
			}
			reach[n] = true
			switch x := n.(type) {
			case *Struct:
				structs = append(structs, x)
				for _, f := range x.Fields {
					walk(f.Type)
				}
			case *Array:
				walk(x.Elem)
			case *Map:
				walk(x.Key)
				walk(x.Elem)
			case *Pointer:
				walk(x.Elem)
			case *Named:
				walk(x.Underlying)
			case *Union:
				for _, m := range x.Members {
					walk(m)
				}
			}
		}
		for _, ty := range ana.Types {
			walk(ty)
		}
		for _, st := range structs {
			cases++
			var want []string
			for u, ms := range analysed {
				for _, m := range ms {
					if m == st.Name.Obj().Name() && strings.HasPrefix(u, st.Name.Obj().Pkg().Path()+".") {
						want = append(want, u)
					}
				}
			}
			sort.Strings(want)
			var got []string
			for _, u := range st.Implements {
				got = append(got, u.name.String())
			}
			if fmt.Sprint(got) != fmt.Sprint(want) {
				fail("struct %s implements %v, want %v", st.Name, got, want)
			}
		}
		// a union node has one member node per member, whatever way it is reached
		for _, ty := range ana.Types {
			if u, ok := ty.(*Union); ok {
				cases++
				want := oracle(u.name.Obj().Pkg())[u.name.Obj().Name()]
				var got []string
				for _, m := range u.Members {
					got = append(got, LocalName(m))
				}
				if fmt.Sprint(got) != fmt.Sprint(want) {
					fail("union %s has members %v, want %v", u.name, got, want)
				}
			}
		}
	}
}

func govcUnionNames(m unionsMap) map[string][]string {
	out := map[string][]string{}
	for k, v := range m {
		for _, x := range v {
			out[k.Obj().Name()] = append(out[k.Obj().Name()], x.Obj().Name())
		}
	}
	return out
}
