package analysis

// Bounded stand-in for C12: closure, faithfulness and termination on one scratch module with
// recursive / mutually recursive declarations, aliases, generics, named-over-named, sub-package
// and standard-library types. (The closure / global identity / termination halves of C12 are NOT
// proved by the contracts; this bounded check is all there is for them.)

import (
	"fmt"
	"go/types"
	"os"
	"testing"
)

const govcGraphSrc = `package m

import (
	"time"

	"example.com/org/m/sub"
	utime "example.com/org/m/utils/time"
)

type Zeta struct{ A Alpha }

type Alpha struct {
	Self  []Alpha
	M     map[string]Alpha
	Arr   [2][]Alpha
}

type X struct{ Y []Y }
type Y struct{ X map[int]X }

type N1 int
type N2 N1
type L []N2
type LL L

type Use struct {
	G  Gen[N1]
	T  time.Time
	D  Date
	S  sub.S
	E  sub.E
	F  [3]float64
	B  []byte
	MM map[N1][]LL
}

type Date time.Time

// embedded struct of another package that nothing else mentions
type Doc struct {
	sub.Audit
	Title string
}

// self-recursive named map, zero-length array
type Tree map[string]Tree
type Z struct{ E [0]int64 }

// named containers declared (hence analysed) before the struct they are recursive with
type Nodes []Node
type Index map[string]Entry
type Node struct{ Children Nodes }
type Entry struct{ Sub Index }

// padding fields are fields; a user package that happens to be called time
type Wire struct {
	_    [3]byte
	A    int
	_    sub.Reserved
	When utime.Stamp
	All  []utime.Stamp
}

// a type reachable only through an ignored field is still part of the graph
type WithIgnored struct {
	A     int
	Trail sub.Trail ` + "`gomacro:\"ignore\"`" + `
}
`

const govcGraphSub = `package sub

type S struct{ V int }
type E uint8

type Audit struct {
	By   string
	Rev  int
	Meta AuditMeta
}

type AuditMeta struct{ N int }

type Reserved struct{ R [4]uint16 }

type Trail struct{ Events []Event }
type Event struct{ At int }

const (
	E0 E = iota
	E1
)
`

func TestGovcHarness_Graph(t *testing.T) {
	root, err := os.MkdirTemp("/var/tmp", "govc-c12-")
	if err != nil {
		t.Fatal(err)
	}
	defer os.RemoveAll(root)
	os.WriteFile(root+"/go.mod", []byte("module example.com/org/m\n\ngo 1.21\n"), 0o644)
	os.MkdirAll(root+"/sub", 0o755)
	os.WriteFile(root+"/sub/sub.go", []byte(govcGraphSub), 0o644)
	os.MkdirAll(root+"/utils/time", 0o755)
	os.WriteFile(root+"/utils/time/t.go", []byte("package time\n\nimport stdtime \"time\"\n\ntype Stamp stdtime.Time\n"), 0o644)
	src := govcGraphSrc
	// pointers are refused by design: keep the pointer field out of the analysed struct
	os.WriteFile(root+"/root.go", []byte(src), 0o644)
	os.WriteFile(root+"/other.go", []byte("package m\n\ntype Gen[T any] struct{ V T }\n"), 0o644)
	os.Setenv("GOFLAGS", "-mod=mod")
	os.Setenv("GOPROXY", "off")
	pa, err := LoadSource(root + "/root.go")
	if err != nil {
		t.Fatal(err)
	}
	cases := 0
	defer func() { fmt.Printf("GOVC-CASES %d\n", cases) }()
	fail := func(format string, a ...interface{}) {
		fmt.Printf("GOVC-FAIL %q\n", fmt.Sprintf(format, a...))
		t.Fatalf(format, a...)
	}
	ana := NewAnalysisFromFile(pa, root+"/root.go") // termination: the test times out otherwise
	// source order
	var last types.Object
	for _, s := range ana.Source {
		cases++
		n, ok := s.(*types.Named)
		if !ok {
			continue
		}
		if last != nil && n.Obj().Pos() < last.Pos() {
			fail("source declarations out of order: %s before %s", last.Name(), n.Obj().Name())
		}
		last = n.Obj()
	}
	if len(ana.Source) != 19 {
		fail("%d source declarations reported, want 19", len(ana.Source))
	}
	// faithfulness of every node of the table, and closure under links
	seen := map[Type]bool{}
	var visit func(n Type, from string)
	visit = func(n Type, from string) {
		if n == nil {
			fail("nil node reached from %s", from)
		}
		if seen[n] {
			return
		}
		seen[n] = true
		cases++
		switch x := n.(type) {
		case *Array:
			visit(x.Elem, "array elem")
		case *Map:
			visit(x.Key, "map key")
			visit(x.Elem, "map elem")
		case *Pointer:
			visit(x.Elem, "pointer elem")
		case *Named:
			visit(x.Underlying, "named underlying")
		case *Struct:
			for _, f := range x.Fields {
				visit(f.Type, "field "+f.Field.Name())
				if _, isTime := f.Type.(*Time); !isTime {
					if nt, isNamedTime := f.Type.(*Named); !(isNamedTime && isTimeNode(nt.Underlying)) {
						if !types.Identical(f.Type.Type(), f.Field.Type()) && !identicalModuloTime(f.Type.Type(), f.Field.Type()) {
							fail("field %s of %s: node describes %s, the field has type %s", f.Field.Name(), x.Name, f.Type.Type(), f.Field.Type())
						}
					}
				}
			}
		case *Union:
			for _, m := range x.Members {
				visit(m, "union member")
			}
		}
	}
	for key, node := range ana.Types {
		cases++
		visit(node, "table")
		if _, isTime := node.(*Time); isTime {
			continue
		}
		if nt, ok := node.(*Named); ok && isTimeNode(nt.Underlying) {
			continue
		}
		if !types.Identical(node.Type(), types.Unalias(key)) && !identicalModuloTime(node.Type(), types.Unalias(key)) {
			fail("table entry %s: node converts back to %s", key, node.Type())
		}
		switch x := node.(type) {
		case *Array:
			switch u := key.Underlying().(type) {
			case *types.Array:
				if int64(x.Len) != u.Len() {
					fail("array %s: Len %d", key, x.Len)
				}
			case *types.Slice:
				if x.Len != -1 {
					fail("slice %s: Len %d", key, x.Len)
				}
			}
		case *Basic:
			if x.B != key.Underlying() {
				fail("basic %s: kind %s", key, x.B)
			}
		}
	}
	// a time type declared outside the standard package time is a Named node over the predefined time, and it
	// converts back to itself (not to time.Time)
	for key, node := range ana.Types {
		if nt, ok := key.(*types.Named); ok && nt.Obj().Name() == "Stamp" {
			cases++
			nn, isNamed := node.(*Named)
			if !isNamed || !isTimeNode(nn.Underlying) || !types.Identical(node.Type(), key) {
				fail("utils/time.Stamp is described by %T converting back to %s", node, node.Type())
			}
		}
	}
	// closure on the go/types side: every named or composite type reachable from the source declarations through
	// fields (embedded ones included), elements, keys and underlying types has an entry in the table
	seenGo := map[types.Type]bool{}
	var walk func(t types.Type, from string)
	walk = func(t types.Type, from string) {
		t = types.Unalias(t)
		if seenGo[t] {
			return
		}
		seenGo[t] = true
		cases++
		if containsTime(t) {
			if _, isNamed := t.(*types.Named); isNamed {
				return // time.Time and named times are reported as predefined nodes
			}
		}
		if _, has := ana.Types[t]; !has {
			found := false
			for k := range ana.Types {
				if types.Identical(k, t) {
					found = true
				}
			}
			if !found {
				fail("type %s, reachable from the source through %s, is not in the analysis result", t, from)
			}
		}
		switch u := t.Underlying().(type) {
		case *types.Struct:
			for i := 0; i < u.NumFields(); i++ {
				walk(u.Field(i).Type(), "field "+u.Field(i).Name()+" of "+t.String())
			}
		case *types.Slice:
			walk(u.Elem(), "element of "+t.String())
		case *types.Array:
			walk(u.Elem(), "element of "+t.String())
		case *types.Map:
			walk(u.Key(), "key of "+t.String())
			walk(u.Elem(), "element of "+t.String())
		}
	}
	for _, s := range ana.Source {
		walk(s, "source")
	}
	// closure: every node reached by links is a value of the table (or an enum / time shared node)
	inTable := map[Type]bool{}
	for _, node := range ana.Types {
		inTable[node] = true
	}
	for n := range seen {
		cases++
		switch n.(type) {
		case *Time, *Enum:
			continue
		}
		if !inTable[n] {
			// the property asks for the TYPE to be present (a recursive named map is described by two equal
			// Named nodes, only one of which is the table's): the type the node describes must be a key
			found := false
			for k := range ana.Types {
				if types.Identical(types.Unalias(k), n.Type()) {
					found = true
				}
			}
			if !found {
				fail("node %T (%s) reached through links describes a type that is not in the analysis result", n, n.Type())
			}
		}
	}
}

func isTimeNode(t Type) bool { _, ok := t.(*Time); return ok }

// time.Time / Date are reported as predefined types: compare the rest of the structure only
func identicalModuloTime(a, b types.Type) bool {
	return types.TypeString(a, nil) == types.TypeString(b, nil) || containsTime(b)
}

func containsTime(t types.Type) bool {
	switch u := t.(type) {
	case *types.Named:
		if u.Obj().Pkg() != nil && u.Obj().Pkg().Path() == "time" {
			return true
		}
		if st, ok := u.Underlying().(*types.Struct); ok && st.NumFields() == 3 && st.Field(0).Name() == "wall" {
			return true
		}
		return false
	case *types.Slice:
		return containsTime(u.Elem())
	case *types.Array:
		return containsTime(u.Elem())
	case *types.Map:
		return containsTime(u.Key()) || containsTime(u.Elem())
	}
	return false
}
