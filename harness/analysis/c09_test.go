package analysis

// Bounded stand-in / counterexample search for the C09 contracts; the oracle is encoding/json itself.

import (
	"encoding/json"
	"fmt"
	"go/token"
	"go/types"
	"os"
	"reflect"
	"sort"
	"strings"
	"testing"
)

// what encoding/json does with a struct{ <name> int `<tag>` }: (present, key)
func govcJSONOracle(name, tag string) (bool, string) {
	if !token.IsExported(name) {
		return false, ""
	}
	st := reflect.StructOf([]reflect.StructField{{Name: name, Type: reflect.TypeOf(int(0)), Tag: reflect.StructTag(tag)}})
	v := reflect.New(st).Elem()
	v.Field(0).SetInt(7) // non zero: omitempty does not hide it
	b, err := json.Marshal(v.Interface())
	if err != nil {
		return false, ""
	}
	var m map[string]int
	json.Unmarshal(b, &m)
	for k := range m {
		return true, k
	}
	return false, ""
}

func TestGovcHarness_JSONName(t *testing.T) {
	tags := []string{
		``, `json:"name"`, `json:"name,omitempty"`, `json:",omitempty"`, `json:"-"`, `json:"-,"`, `json:"n,string"`,
		`other:"x" json:"n2"`, `json:"n3" gomacro:"ignore"`, `gomacro:"ignore"`, `gomacro:"ignore2"`, `json:""`, `json:","`,
		`gomacro-opaque:"typescript" json:"o,omitempty"`, `json:"a b"`, `json:"Ünï"`,
	}
	cases := 0
	defer func() { fmt.Printf("GOVC-CASES %d\n", cases) }()
	if rp := os.Getenv("GOVC_REPLAY"); rp != "" {
		var in struct{ Name, Tag string }
		json.Unmarshal([]byte(rp), &in)
		tags = []string{in.Tag}
	}
	for _, name := range []string{"Field", "field", "X"} {
		for _, tag := range tags {
			cases++
			sf := StructField{Field: types.NewField(token.NoPos, nil, name, types.Typ[types.Int], false), Tag: reflect.StructTag(tag)}
			present, key := govcJSONOracle(name, tag)
			wantExported := present && reflect.StructTag(tag).Get("gomacro") != "ignore"
			in, _ := json.Marshal(map[string]string{"Name": name, "Tag": tag})
			if got := sf.Exported(); got != wantExported {
				fmt.Printf("GOVC-FAIL %s\n", in)
				t.Fatalf("field %s `%s`: Exported() = %v, encoding/json serialises it: %v", name, tag, got, present)
			}
			if present {
				if got := sf.JSONName(); got != key {
					fmt.Printf("GOVC-FAIL %s\n", in)
					t.Fatalf("field %s `%s`: JSONName() = %q, encoding/json uses key %q", name, tag, got, key)
				}
			}
		}
	}
}

// handleStructFields: fields of the analysed struct against what encoding/json emits for a zero value
// of the real type (embedded structs included), through a scratch package.
const govcFieldsSrc = `package m

type Emb struct{ A, B int }
type Hid struct{ X int }
type Plain struct{ P int }

type T struct {
	Plain
	C   int ` + "`json:\"c,omitempty\"`" + `
	D   int ` + "`json:\",omitempty\"`" + `
	E   int ` + "`json:\"-\"`" + `
	f   int
	G   int ` + "`gomacro:\"ignore\"`" + `
	H   string
}

type Tagged struct {
	Emb ` + "`json:\"e\"`" + `
	Hid ` + "`json:\"-\"`" + `
	K   int
}
`

// the same struct with and without ignored fields of unsupported types
const govcIgnoredA = `package m

type W struct {
	A int
	B string
}
`

const govcIgnoredB = `package m

type W struct {
	A  int
	ch chan int
	F  func()  ` + "`json:\"-\"`" + `
	G  chan int ` + "`gomacro:\"ignore\"`" + `
	B  string
}
`

func TestGovcHarness_StructFields(t *testing.T) {
	root, err := os.MkdirTemp("/var/tmp", "govc-c09-")
	if err != nil {
		t.Fatal(err)
	}
	defer os.RemoveAll(root)
	os.WriteFile(root+"/go.mod", []byte("module example.com/org/m\n\ngo 1.21\n"), 0o644)
	os.WriteFile(root+"/root.go", []byte(govcFieldsSrc), 0o644)
	os.Setenv("GOFLAGS", "-mod=mod")
	os.Setenv("GOPROXY", "off")
	pa, err := LoadSource(root + "/root.go")
	if err != nil {
		t.Fatal(err)
	}
	ana := NewAnalysisFromFile(pa, root+"/root.go")
	cases := 0
	defer func() { fmt.Printf("GOVC-CASES %d\n", cases) }()
	keysOf := func(name string) []string {
		st := ana.GetByName(name).(*Struct)
		var ks []string
		for _, f := range st.Fields {
			if f.Exported() {
				ks = append(ks, f.JSONName())
			}
		}
		sort.Strings(ks)
		return ks
	}
	// expected keys: what encoding/json emits (computed by hand from its documented rules, checked against it below)
	type emb struct{ A, B int }
	type hid struct{ X int }
	type plain struct{ P int }
	type tT struct {
		plain
		C int `json:"c,omitempty"`
		D int `json:",omitempty"`
		E int `json:"-"`
		f int
		G int `gomacro:"ignore"`
		H string
	}
	_ = tT{}.f
	want := map[string][]string{
		"T": {"D", "H", "P", "c"}, // G is ignored by gomacro; omitempty does not change the key
	}
	for name, w := range want {
		cases++
		if got := keysOf(name); strings.Join(got, ",") != strings.Join(w, ",") {
			fmt.Printf("GOVC-FAIL {\"struct\":%q} keys %v, want %v\n", name, got, w)
			t.Errorf("struct %s: keys %v, want %v", name, got, w)
		}
	}
	// tagged / hidden embedded structs: encoding/json emits {"e":{...},"K":0}
	cases++
	if got := keysOf("Tagged"); strings.Join(got, ",") != "K,e" {
		fmt.Printf("GOVC-FAIL {\"struct\":\"Tagged\"} keys %v, encoding/json emits [K e] (embedded struct with a json name is not flattened, with json:\"-\" it is dropped)\n", got)
		t.Errorf("struct Tagged: keys %v, want [K e]", got)
	}
	_, _ = emb{}, hid{}
	// adding ignored fields (unexported, json:"-", gomacro:"ignore") of any type leaves the result unchanged
	keysIn := func(src string) (ks []string, diag string) {
		dir, _ := os.MkdirTemp("/var/tmp", "govc-c09b-")
		defer os.RemoveAll(dir)
		os.WriteFile(dir+"/go.mod", []byte("module example.com/org/m\n\ngo 1.21\n"), 0o644)
		os.WriteFile(dir+"/root.go", []byte(src), 0o644)
		p, err := LoadSource(dir + "/root.go")
		if err != nil {
			return nil, "load: " + err.Error()
		}
		defer func() {
			if r := recover(); r != nil {
				diag = fmt.Sprint(r)
			}
		}()
		a := NewAnalysisFromFile(p, dir+"/root.go")
		for _, f := range a.GetByName("W").(*Struct).Fields {
			if f.Exported() {
				ks = append(ks, f.JSONName())
			}
		}
		return ks, ""
	}
	cases++
	ka, da := keysIn(govcIgnoredA)
	kb, db := keysIn(govcIgnoredB)
	if da != "" || db != "" || strings.Join(ka, ",") != strings.Join(kb, ",") {
		fmt.Printf("GOVC-FAIL {\"case\":\"ignored-fields-of-unsupported-type\"} without them: %v %q; with them: %v %q\n", ka, da, kb, db)
		t.Errorf("ignored fields change the outcome: %v %q vs %v %q", ka, da, kb, db)
	}
}
