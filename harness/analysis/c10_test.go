package analysis

// Bounded stand-in / counterexample search for the C10 contracts.

import (
	"encoding/json"
	"fmt"
	"go/constant"
	"go/token"
	"go/types"
	"os"
	"testing"
)

type govcMember struct {
	Name string
	Val  int64
}

func govcBuildEnum(ms []govcMember) *Enum {
	pkg := types.NewPackage("example.com/p", "p")
	named := types.NewNamed(types.NewTypeName(token.NoPos, pkg, "E", nil), types.Typ[types.Int], nil)
	e := &Enum{name: named}
	for _, m := range ms {
		c := types.NewConst(token.NoPos, pkg, m.Name, named, constant.MakeInt64(m.Val))
		e.Members = append(e.Members, EnumMember{Const: c})
	}
	return e
}

func govcCheckIota(ms []govcMember) (msg string) {
	defer func() {
		if r := recover(); r != nil {
			msg = fmt.Sprintf("runtime panic: %v", r)
		}
	}()
	e := govcBuildEnum(ms)
	before := append([]EnumMember(nil), e.Members...)
	e.setIsIota()
	// nothing lost, nothing invented
	if len(e.Members) != len(before) {
		return "member count changed"
	}
	count := map[*types.Const]int{}
	for _, m := range before {
		count[m.Const]++
	}
	for _, m := range e.Members {
		count[m.Const]--
	}
	for _, c := range count {
		if c != 0 {
			return "members are not a permutation of the declared constants"
		}
	}
	// soundness
	if e.IsIota {
		k := int64(0)
		for _, m := range e.Members {
			if !m.Const.Exported() {
				continue
			}
			v, ok := constant.Int64Val(m.Const.Val())
			if !ok || v != k {
				return fmt.Sprintf("flagged iota but exported member #%d (%s) has value %d", k, m.Const.Name(), v)
			}
			k++
		}
	}
	// completeness: exported values are exactly 0..n-1 without duplicate, all values >= 0
	seen := map[int64]int{}
	allNat := true
	nExp := int64(0)
	for _, m := range ms {
		if m.Val < 0 {
			allNat = false
		}
		if token.IsExported(m.Name) {
			seen[m.Val]++
			nExp++
		}
	}
	plain := allNat
	for k := int64(0); k < nExp; k++ {
		if seen[k] != 1 {
			plain = false
		}
	}
	if plain && !e.IsIota {
		return "plain 0..n-1 block of non-negative constants is not flagged iota"
	}
	if !e.IsIota {
		for i := range before {
			if e.Members[i] != before[i] {
				return "members reordered although the enum is not flagged"
			}
		}
	}
	return ""
}

func TestGovcHarness_setIsIota(t *testing.T) {
	if rp := os.Getenv("GOVC_REPLAY"); rp != "" {
		var ms []govcMember
		if err := json.Unmarshal([]byte(rp), &ms); err != nil {
			t.Fatal(err)
		}
		if msg := govcCheckIota(ms); msg != "" {
			fmt.Printf("GOVC-FAIL %s\n", rp)
			t.Fatal(msg)
		}
		return
	}
	maxLen := 4
	if os.Getenv("GOVC_TIER") == "thorough" {
		maxLen = 5
	}
	vals := []int64{-1, 0, 1, 2, 3}
	cases := 0
	defer func() { fmt.Printf("GOVC-CASES %d\n", cases) }()
	var cur []govcMember
	var rec func() bool
	rec = func() bool {
		cases++
		if msg := govcCheckIota(cur); msg != "" {
			b, _ := json.Marshal(cur)
			fmt.Printf("GOVC-FAIL %s\n", b)
			t.Error(msg)
			return true
		}
		if len(cur) == maxLen {
			return false
		}
		for _, v := range vals {
			for _, exp := range []bool{true, false} {
				name := fmt.Sprintf("m%d", len(cur))
				if exp {
					name = fmt.Sprintf("M%d", len(cur))
				}
				cur = append(cur, govcMember{name, v})
				if rec() {
					return true
				}
				cur = cur[:len(cur)-1]
			}
		}
		return false
	}
	if rec() {
		return
	}
	// long blocks (sizes around machine-word boundaries), with one perturbation at a high position
	for _, n := range []int{31, 32, 33, 63, 64, 65, 66, 70, 130} {
		base := make([]govcMember, n)
		for i := range base {
			base[i] = govcMember{fmt.Sprintf("M%d", i), int64(i)}
		}
		variants := [][]govcMember{base}
		for _, at := range []int{n - 1, n - 2, n / 2} {
			if at < 1 {
				continue
			}
			dup := append([]govcMember(nil), base...)
			dup[at].Val = dup[at-1].Val // duplicate, gap at the end
			variants = append(variants, dup)
			gapdup := append([]govcMember(nil), base...)
			gapdup[at-1].Val = int64(n) // gap at at-1 ...
			gapdup[at].Val = int64(n)   // ... compensated by a duplicate above the range
			variants = append(variants, gapdup)
			unexp := append([]govcMember(nil), base...)
			unexp[at].Name = fmt.Sprintf("m%d", at)
			variants = append(variants, unexp)
		}
		for _, v := range variants {
			cases++
			if msg := govcCheckIota(v); msg != "" {
				b, _ := json.Marshal(v)
				fmt.Printf("GOVC-FAIL %s\n", b)
				t.Error(msg)
				return
			}
		}
	}
}

const govcEnumSrc = `package p

type A int

const (
	A0 A = iota
	A1
	a2
	A3
)

type B string

const (
	B1 B = "x" // comment b1
	B2 B = "y"
)

type C int

const C1 C = 5 // gomacro:no-enum

type D int

const (
	D0 D = 0
	D1 D = 0
)

type F int

const untyped = 3

type G int

const (
	G0 G = iota // zero
	G1
	G2
	defaultG = G0 // gomacro:no-enum
)

type H int

const (
	h0 H = iota
	H1
	H2
)

type N int

const N0 N = -1
`

func TestGovcHarness_fetchPkgEnums(t *testing.T) {
	root, err := os.MkdirTemp("/var/tmp", "govc-c10-")
	if err != nil {
		t.Fatal(err)
	}
	defer os.RemoveAll(root)
	os.WriteFile(root+"/go.mod", []byte("module example.com/p\n\ngo 1.21\n"), 0o644)
	os.WriteFile(root+"/p.go", []byte(govcEnumSrc), 0o644)
	os.Setenv("GOFLAGS", "-mod=mod")
	os.Setenv("GOPROXY", "off")
	pa, err := LoadSource(root + "/p.go")
	if err != nil {
		t.Fatal(err)
	}
	cases := 0
	defer func() { fmt.Printf("GOVC-CASES %d\n", cases) }()
	fail := func(format string, a ...interface{}) {
		fmt.Printf("GOVC-FAIL %q\n", fmt.Sprintf(format, a...))
		t.Fatalf(format, a...)
	}
	enums := fetchPkgEnums(pa)
	want := map[string][]string{ // type -> members (scope order) as name=value|comment
		"A": {"A0=0|", "A1=1|", "A3=3|", "a2=2|"},
		"B": {"B1=\"x\"|comment b1", "B2=\"y\"|"},
		"D": {"D0=0|", "D1=0|"},
		"G": {"G0=0|zero", "G1=1|", "G2=2|"},
		"H": {"H1=1|", "H2=2|", "h0=0|"},
		"N": {"N0=-1|"},
	}
	wantIota := map[string]bool{"A": false, "B": false, "D": false, "G": true, "H": false, "N": false}
	got := map[string]*Enum{}
	for n, e := range enums {
		if e == nil || e.name != n {
			fail("enum entry for %s is inconsistent", n)
		}
		got[n.Obj().Name()] = e
	}
	for name, ms := range want {
		cases++
		e := got[name]
		if e == nil {
			fail("type %s is not detected as an enum", name)
		}
		have := map[string]int{}
		for _, m := range e.Members {
			have[fmt.Sprintf("%s=%s|%s", m.Const.Name(), m.Const.Val().ExactString(), m.Comment)]++
		}
		for _, w := range ms {
			if have[w] != 1 {
				fail("enum %s: member %s present %d times (members: %v)", name, w, have[w], have)
			}
		}
		if len(e.Members) != len(ms) {
			fail("enum %s has %d members, want %d", name, len(e.Members), len(ms))
		}
		if e.IsIota != wantIota[name] {
			fail("enum %s: IsIota=%v, want %v", name, e.IsIota, wantIota[name])
		}
	}
	for name := range got {
		cases++
		if _, ok := want[name]; !ok {
			fail("type %s must not be an enum", name)
		}
	}
}

// fetchEnumsAndUnions walks the import graph (closure recursion, outside the verified subset):
// bounded coverage on a scratch module with two sub-packages sharing a package NAME and a type name.
func TestGovcHarness_fetchEnumsAndUnions(t *testing.T) {
	root, err := os.MkdirTemp("/var/tmp", "govc-c10b-")
	if err != nil {
		t.Fatal(err)
	}
	defer os.RemoveAll(root)
	w := func(rel, content string) {
		os.MkdirAll(root+"/"+rel[:len(rel)-len("/x.go")], 0o755)
		os.WriteFile(root+"/"+rel, []byte(content), 0o644)
	}
	os.WriteFile(root+"/go.mod", []byte("module example.com/org/m\n\ngo 1.21\n"), 0o644)
	w("shapes/kinds/x.go", "package kinds\n\ntype Kind int\n\nconst (\n\tCircle Kind = iota\n\tSquare\n)\n\ntype Drawable interface{ draw() }\n\ntype Pen struct{}\n\nfunc (Pen) draw() {}\n")
	w("colors/kinds/x.go", "package kinds\n\ntype Kind string\n\nconst (\n\tRed Kind = \"r\"\n\tBlue Kind = \"b\"\n)\n\ntype Drawable interface{ draw() }\n\ntype Brush struct{}\n\nfunc (Brush) draw() {}\n\ntype Spray struct{}\n\nfunc (Spray) draw() {}\n")
	w("deep/a/x.go", "package a\n\nimport (\n\t\"example.com/org/m/deep/b\"\n\t\"example.com/org/m/deep/c\"\n\tsk \"example.com/org/m/shapes/kinds\"\n)\n\n// shapes/kinds is reached twice (root -> kinds, root -> a -> kinds): its unions keep each member once\ntype A struct {\n\tB b.Level\n\tG c.Grade\n\tK sk.Kind\n}\n\n// a constant of a type of ANOTHER package: c.Grade has no constant in its own package, so it is not an enum;\n// b.Level keeps exactly its own two members\nconst Best c.Grade = 1\n\nconst Extra b.Level = 7\n")
	w("deep/c/x.go", "package c\n\ntype Grade int\n")
	w("deep/b/x.go", "package b\n\ntype Level uint8\n\nconst (\n\tLow Level = iota\n\tHigh\n)\n")
	os.WriteFile(root+"/root.go", []byte("package m\n\nimport (\n\tsk \"example.com/org/m/shapes/kinds\"\n\tck \"example.com/org/m/colors/kinds\"\n\t\"example.com/org/m/deep/a\"\n)\n\ntype T struct {\n\tS sk.Kind\n\tC ck.Kind\n\tA a.A\n\tM Mode\n}\n\ntype Mode int\n\nconst (\n\tOff Mode = iota\n\tOn\n)\n"), 0o644)
	os.Setenv("GOFLAGS", "-mod=mod")
	os.Setenv("GOPROXY", "off")
	cases := 0
	defer func() { fmt.Printf("GOVC-CASES %d\n", cases) }()
	for rep := 0; rep < 8; rep++ { // map iteration order varies between repetitions
		pa, err := LoadSource(root + "/root.go")
		if err != nil {
			t.Fatal(err)
		}
		enums, unions := fetchEnumsAndUnions(pa)
		gotU := map[string]int{}
		for n, ms := range unions {
			gotU[n.Obj().Pkg().Path()+"."+n.Obj().Name()] = len(ms)
		}
		wantU := map[string]int{"example.com/org/m/shapes/kinds.Drawable": 1, "example.com/org/m/colors/kinds.Drawable": 2}
		for k, n := range wantU {
			cases++
			if gotU[k] != n {
				fmt.Printf("GOVC-FAIL \"union %s: %d members found, want %d (all: %v)\"\n", k, gotU[k], n, gotU)
				t.Fatalf("union %s: %d members found, want %d", k, gotU[k], n)
			}
		}
		got := map[string]int{}
		for n, e := range enums {
			got[n.Obj().Pkg().Path()+"."+n.Obj().Name()] = len(e.Members)
		}
		want := map[string]int{"example.com/org/m.Mode": 2, "example.com/org/m/shapes/kinds.Kind": 2, "example.com/org/m/colors/kinds.Kind": 2, "example.com/org/m/deep/b.Level": 2}
		for k, n := range want {
			cases++
			if got[k] != n {
				fmt.Printf("GOVC-FAIL \"enum %s: %d members found, want %d (all: %v)\"\n", k, got[k], n, got)
				t.Fatalf("enum %s: %d members found, want %d", k, got[k], n)
			}
		}
		if len(got) != len(want) {
			fmt.Printf("GOVC-FAIL \"unexpected enums %v\"\n", got)
			t.Fatalf("unexpected enums %v", got)
		}
	}
}
