package analysis

// Bounded stand-in / counterexample search for the C10 contracts.

import (
	"encoding/json"
	"fmt"
	"go/constant"
	"go/token"
	"go/types"
	"os"
	"testing"
)

type govcMember struct {
	Name string
	Val  int64
}

func govcBuildEnum(ms []govcMember) *Enum {
	pkg := types.NewPackage("example.com/p", "p")
	named := types.NewNamed(types.NewTypeName(token.NoPos, pkg, "E", nil), types.Typ[types.Int], nil)
	e := &Enum{name: named}
	for _, m := range ms {
		c := types.NewConst(token.NoPos, pkg, m.Name, named, constant.MakeInt64(m.Val))
		e.Members = append(e.Members, EnumMember{Const: c})
	}
	return e
}

func govcCheckIota(ms []govcMember) (msg string) {
	defer func() {
		if r := recover(); r != nil {
			msg = fmt.Sprintf("runtime panic: %v", r)
		}
	}()
	e := govcBuildEnum(ms)
	before := append([]EnumMember(nil), e.Members...)
	e.setIsIota()
	// nothing lost, nothing invented
	if len(e.Members) != len(before) {
		return "member count changed"
	}
	count := map[*types.Const]int{}
	for _, m := range before {
		count[m.Const]++
	}
	for _, m := range e.Members {
		count[m.Const]--
	}
	for _, c := range count {
		if c != 0 {
			return "members are not a permutation of the declared constants"
		}
	}
	// soundness
	if e.IsIota {
		k := int64(0)
		for _, m := range e.Members {
			if !m.Const.Exported() {
				continue
			}
			v, ok := constant.Int64Val(m.Const.Val())
			if !ok || v != k {
				return fmt.Sprintf("flagged iota but exported member #%d (%s) has value %d", k, m.Const.Name(), v)
			}
			k++
		}
	}
	// completeness: exported values are exactly 0..n-1 without duplicate, all values >= 0
	seen := map[int64]int{}
	allNat := true
	nExp := int64(0)
	for _, m := range ms {
		if m.Val < 0 {
			allNat = false
		}
		if token.IsExported(m.Name) {
			seen[m.Val]++
			nExp++
		}
	}
	plain := allNat
	for k := int64(0); k < nExp; k++ {
		if seen[k] != 1 {
			plain = false
		}
	}
	if plain && !e.IsIota {
		return "plain 0..n-1 block of non-negative constants is not flagged iota"
	}
	if !e.IsIota {
		for i := range before {
			if e.Members[i] != before[i] {
				return "members reordered although the enum is not flagged"
			}
		}
	}
	return ""
}

func TestGovcHarness_setIsIota(t *testing.T) {
	if rp := os.Getenv("GOVC_REPLAY"); rp != "" {
		var ms []govcMember
		if err := json.Unmarshal([]byte(rp), &ms); err != nil {
			t.Fatal(err)
		}
		if msg := govcCheckIota(ms); msg != "" {
			fmt.Printf("GOVC-FAIL %s\n", rp)
			t.Fatal(msg)
		}
		return
	}
	maxLen := 4
	if os.Getenv("GOVC_TIER") == "thorough" {
		maxLen = 5
	}
	vals := []int64{-1, 0, 1, 2, 3}
	cases := 0
	defer func() { fmt.Printf("GOVC-CASES %d\n", cases) }()
	var cur []govcMember
	var rec func() bool
	rec = func() bool {
		cases++
		if msg := govcCheckIota(cur); msg != "" {
			b, _ := json.Marshal(cur)
			fmt.Printf("GOVC-FAIL %s\n", b)
			t.Error(msg)
			return true
		}
		if len(cur) == maxLen {
			return false
		}
		for _, v := range vals {
			for _, exp := range []bool{true, false} {
				name := fmt.Sprintf("m%d", len(cur))
				if exp {
					name = fmt.Sprintf("M%d", len(cur))
				}
				cur = append(cur, govcMember{name, v})
				if rec() {
					return true
				}
				cur = cur[:len(cur)-1]
			}
		}
		return false
	}
	rec()
}

const govcEnumSrc = `package p

type A int

const (
	A0 A = iota
	A1
	a2
	A3
)

type B string

const (
	B1 B = "x" // comment b1
	B2 B = "y"
)

type C int

const C1 C = 5 // gomacro:no-enum

type D int

const (
	D0 D = 0
	D1 D = 0
)

type F int

const untyped = 3

type G int

const (
	G0 G = iota // zero
	G1
	G2
	defaultG = G0 // gomacro:no-enum
)

type H int

const (
	h0 H = iota
	H1
	H2
)

type N int

const N0 N = -1
`

func TestGovcHarness_fetchPkgEnums(t *testing.T) {
	root, err := os.MkdirTemp("/var/tmp", "govc-c10-")
	if err != nil {
		t.Fatal(err)
	}
	defer os.RemoveAll(root)
	os.WriteFile(root+"/go.mod", []byte("module example.com/p\n\ngo 1.21\n"), 0o644)
	os.WriteFile(root+"/p.go", []byte(govcEnumSrc), 0o644)
	os.Setenv("GOFLAGS", "-mod=mod")
	os.Setenv("GOPROXY", "off")
	pa, err := LoadSource(root + "/p.go")
	if err != nil {
		t.Fatal(err)
	}
	cases := 0
	defer func() { fmt.Printf("GOVC-CASES %d\n", cases) }()
	fail := func(format string, a ...interface{}) {
		fmt.Printf("GOVC-FAIL %q\n", fmt.Sprintf(format, a...))
		t.Fatalf(format, a...)
	}
	enums := fetchPkgEnums(pa)
	want := map[string][]string{ // type -> members (scope order) as name=value|comment
		"A": {"A0=0|", "A1=1|", "A3=3|", "a2=2|"},
		"B": {"B1=\"x\"|comment b1", "B2=\"y\"|"},
		"D": {"D0=0|", "D1=0|"},
		"G": {"G0=0|zero", "G1=1|", "G2=2|"},
		"H": {"H1=1|", "H2=2|", "h0=0|"},
		"N": {"N0=-1|"},
	}
	wantIota := map[string]bool{"A": false, "B": false, "D": false, "G": true, "H": false, "N": false}
	got := map[string]*Enum{}
	for n, e := range enums {
		if e == nil || e.name != n {
			fail("enum entry for %s is inconsistent", n)
		}
		got[n.Obj().Name()] = e
	}
	for name, ms := range want {
		cases++
		e := got[name]
		if e == nil {
			fail("type %s is not detected as an enum", name)
		}
		have := map[string]int{}
		for _, m := range e.Members {
			have[fmt.Sprintf("%s=%s|%s", m.Const.Name(), m.Const.Val().ExactString(), m.Comment)]++
		}
		for _, w := range ms {
			if have[w] != 1 {
				fail("enum %s: member %s present %d times (members: %v)", name, w, have[w], have)
			}
		}
		if len(e.Members) != len(ms) {
			fail("enum %s has %d members, want %d", name, len(e.Members), len(ms))
		}
		if e.IsIota != wantIota[name] {
			fail("enum %s: IsIota=%v, want %v", name, e.IsIota, wantIota[name])
		}
	}
	for name := range got {
		cases++
		if _, ok := want[name]; !ok {
			fail("type %s must not be an enum", name)
		}
	}
}
