package sqlcrud

// Bounded stand-in / counterexample search for the C05 kernel: in every generated statement the
// placeholders are exactly $1..$n for n arguments, and INSERT/UPDATE list as many columns as values.

import (
	"fmt"
	"os"
	"regexp"
	"strconv"
	"strings"
	"testing"

	an "github.com/benoitkugler/gomacro/analysis"
	ansql "github.com/benoitkugler/gomacro/analysis/sql"
	gen "github.com/benoitkugler/gomacro/generator"
	gensql "github.com/benoitkugler/gomacro/generator/sql"
)

const govcModelSrc = `package m

type IdA int64
type IdB int64
type IdC int64

type Tags []string

// all-integer struct (a composite type in the schema) with a field the JSON side ignores
type Span struct {
	Low    int
	hidden int
	High   int
}

type NullB struct {
	Valid bool
	Id    IdB
}

// gomacro:SQL ADD UNIQUE(Name)
// gomacro:SQL ADD UNIQUE(Name, Rank)
// gomacro:SQL _SELECT KEY (Rank, Name)
type A struct {
	Id    IdA
	Name  string
	Rank  int
	Guard string ` + "`gomacro-sql-guard:\"'x'\"`" + `
	Tags  Tags
	Opt   NullB ` + "`gomacro-sql-foreign:\"B\"`" + `
}

type B struct {
	Name string
	Id   IdB
	V    float64
}

// guard declared before the id; single-column unique foreign key whose field is not named like its type
// gomacro:SQL ADD UNIQUE(Owner)
type C struct {
	Kind  string ` + "`gomacro-sql-guard:\"'c'\"`" + `
	Id    IdC
	Title string
	Pages int
	Owner IdA
	Sp    Span
}

// link table with a guard; custom queries whose table names touch punctuation
// gomacro:QUERY PurgeLink2 DELETE FROM Link2;
// gomacro:QUERY BumpLink2 UPDATE Link2 SET Note = $note$ WHERE Link2.IdA = $ida$;
type Link2 struct {
	IdA  IdA
	IdC  IdC
	Kind string ` + "`gomacro-sql-guard:\"'l'\"`" + `
	Note string
}

// gomacro:SQL ADD UNIQUE(IdA, IdB)
type Link struct {
	IdA  IdA
	IdB  IdB ` + "`gomacro-sql-on-delete:\"CASCADE\"`" + `
	Opt  NullB ` + "`gomacro-sql-foreign:\"B\"`" + `
	Note string
}
`

var (
	govcCall = regexp.MustCompile(`(?s)\.(Query|QueryRow|Exec)\(\s*(?:"((?:[^"\\]|\\.)*)"|` + "`([^`]*)`" + `)\s*((?:,[^;{}]*?)?)\)\s*\n`)
	govcPh   = regexp.MustCompile(`\$(\d+)`)
)

func govcTopLevelArgs(s string) int {
	s = strings.TrimSpace(strings.TrimPrefix(strings.TrimSpace(s), ","))
	if s == "" {
		return 0
	}
	depth, n := 0, 1
	for _, c := range s {
		switch c {
		case '(', '[', '{':
			depth++
		case ')', ']', '}':
			depth--
		case ',':
			if depth == 0 {
				n++
			}
		}
	}
	if strings.HasSuffix(strings.TrimSpace(s), ",") {
		n--
	}
	return n
}

func TestGovcHarness_Placeholders(t *testing.T) {
	root, err := os.MkdirTemp("/var/tmp", "govc-c05-")
	if err != nil {
		t.Fatal(err)
	}
	defer os.RemoveAll(root)
	os.WriteFile(root+"/go.mod", []byte("module example.com/org/m\n\ngo 1.21\n"), 0o644)
	os.WriteFile(root+"/root.go", []byte(govcModelSrc), 0o644)
	os.Setenv("GOFLAGS", "-mod=mod")
	os.Setenv("GOPROXY", "off")
	pkg, err := an.LoadSource(root + "/root.go")
	if err != nil {
		t.Fatal(err)
	}
	ana := an.NewAnalysisFromFile(pkg, root+"/root.go")
	code := gen.WriteDeclarations(Generate(ana, true))
	cases := 0
	defer func() { fmt.Printf("GOVC-CASES %d\n", cases) }()
	// the schema side: columns of every table, as the SQL generator will declare them (PostgreSQL folds case)
	type tinfo struct {
		cols     map[string]bool
		writable []string // non guard columns, without the serial id of primary tables, in column order
		scanned  []string // non guard columns, in column order
	}
	schema := map[string]tinfo{}
	for _, ta := range ansql.SelectTables(ana) {
		ti := tinfo{cols: map[string]bool{}}
		for i, c := range ta.Columns {
			name := strings.ToLower(c.Field.Field.Name())
			ti.cols[name] = true
			if _, isGuard := c.Field.IsSQLGuard(); !isGuard {
				ti.scanned = append(ti.scanned, name)
			}
			if _, isGuard := c.Field.IsSQLGuard(); isGuard || i == ta.Primary() {
				continue
			}
			ti.writable = append(ti.writable, name)
		}
		schema[gen.SQLTableName(ta.TableName())] = ti
	}
	// composite columns: the schema's CREATE TYPE lists as many fields as the converters write and expect
	schemaSQL := gen.WriteDeclarations(gensql.Generate(ana))
	if m := regexp.MustCompile(`CREATE TYPE Span AS \(([^)]*)\);`).FindStringSubmatch(schemaSQL); m == nil {
		t.Fatalf("no CREATE TYPE for the composite Span:\n%s", schemaSQL)
	} else {
		cases++
		nSchema := len(strings.Split(m[1], ","))
		vm := regexp.MustCompile(`func \(s Span\) Value\(\)[^}]*fmt\.Appendf\(nil, "\(([^)]*)\)"`).FindStringSubmatch(code)
		sm := regexp.MustCompile(`func \(s \*Span\) Scan\([^{]*\{[^}]*\}[^}]*if len\(fields\) != (\d+)`).FindStringSubmatch(code)
		if vm == nil || sm == nil {
			t.Fatalf("converters of the composite Span not recognised in the generated code")
		}
		nValue := len(strings.Split(vm[1], ","))
		nScan, _ := strconv.Atoi(sm[1])
		if nSchema != nValue || nSchema != nScan {
			fmt.Printf("GOVC-FAIL {\"composite\":\"Span\",\"schema_fields\":%d,\"value_fields\":%d,\"scan_fields\":%d}\n", nSchema, nValue, nScan)
			t.Errorf("composite Span: the schema declares %d fields, Value() writes %d, Scan() expects %d", nSchema, nValue, nScan)
		}
	}
	reTable := regexp.MustCompile(`(?i)\b(?:FROM|INTO|UPDATE)\s+(\w+)`)
	reCmp := regexp.MustCompile(`(\w+)\s*(?:=|IS NOT DISTINCT FROM)\s*(?:ANY\()?\$\d+`)
	reInsert := regexp.MustCompile(`(?is)INSERT INTO (\w+)\s*\(([^)]*)\)\s*VALUES`)
	fail := func(format string, a ...interface{}) {
		msg := fmt.Sprintf(format, a...)
		fmt.Printf("GOVC-FAIL {\"statement\":%q}\n", msg)
		t.Error(msg)
	}
	for _, m := range govcCall.FindAllStringSubmatch(code, -1) {
		query := m[2] + m[3]
		if strings.Contains(query, "%s") || strings.Contains(query, "\" +") {
			continue
		}
		tm := reTable.FindStringSubmatch(query)
		if tm == nil {
			continue
		}
		cases++
		ti, known := schema[tm[1]]
		if !known {
			fail("statement %q names the table %s, which the schema does not create", query, tm[1])
			continue
		}
		// every column compared with a placeholder exists in that table
		for _, c := range reCmp.FindAllStringSubmatch(query, -1) {
			if !ti.cols[strings.ToLower(c[1])] {
				fail("statement %q compares %s, which is not a column of %s", query, c[1], tm[1])
			}
		}
		// qualified columns name an existing table
		for _, q := range regexp.MustCompile(`(\w+)\.(\w+)\s*=`).FindAllStringSubmatch(query, -1) {
			if _, ok := schema[q[1]]; !ok {
				fail("statement %q qualifies a column with %s, which is not a table of the schema", query, q[1])
			}
		}
		// RETURNING lists exactly the scan destinations: the non-guard columns, in column order (or the id alone)
		if rm := regexp.MustCompile(`(?i)RETURNING\s+([^;"]+)`).FindStringSubmatch(query); rm != nil {
			var got []string
			for _, c := range strings.Split(rm[1], ",") {
				got = append(got, strings.ToLower(strings.TrimSpace(c)))
			}
			if !(len(got) == 1 && got[0] == "id") && strings.Join(got, ",") != strings.Join(ti.scanned, ",") {
				fail("statement %q returns %v; the scan destinations of %s are %v", query, got, tm[1], ti.scanned)
			}
		}
		// INSERT writes exactly the writable columns, in column order
		if im := reInsert.FindStringSubmatch(query); im != nil {
			var got []string
			for _, c := range strings.Split(im[2], ",") {
				got = append(got, strings.ToLower(strings.Trim(strings.TrimSpace(c), `\"`)))
			}
			if strings.Join(got, ",") != strings.Join(ti.writable, ",") {
				fail("INSERT %q writes the columns %v of %s; the non-guard, non-serial columns are %v", query, got, tm[1], ti.writable)
			}
		}
	}
	for _, m := range govcCall.FindAllStringSubmatch(code, -1) {
		query := m[2] + m[3]
		if strings.Contains(query, "%s") || strings.Contains(query, "\" +") {
			continue // assembled at run time
		}
		cases++
		nargs := govcTopLevelArgs(m[4])
		if strings.Contains(m[4], "...") {
			continue
		}
		seen := map[int]bool{}
		max := 0
		for _, ph := range govcPh.FindAllStringSubmatch(query, -1) {
			n, _ := strconv.Atoi(ph[1])
			seen[n] = true
			if n > max {
				max = n
			}
		}
		ok := max == nargs
		for i := 1; i <= max; i++ {
			if !seen[i] {
				ok = false
			}
		}
		if !ok {
			fmt.Printf("GOVC-FAIL {\"query\":%q,\"args\":%d}\n", query, nargs)
			t.Errorf("statement %q has placeholders %v for %d arguments (%s)", query, seen, nargs, strings.TrimSpace(m[4]))
		}
		// INSERT: as many columns as values
		if strings.HasPrefix(strings.TrimSpace(strings.ToUpper(query)), "INSERT") {
			parts := regexp.MustCompile(`(?is)\(([^)]*)\)\s*VALUES\s*\(([^)]*)\)`).FindStringSubmatch(query)
			if parts != nil && len(strings.Split(parts[1], ",")) != len(strings.Split(parts[2], ",")) {
				fmt.Printf("GOVC-FAIL {\"query\":%q}\n", query)
				t.Errorf("INSERT %q lists %d columns for %d values", query, len(strings.Split(parts[1], ",")), len(strings.Split(parts[2], ",")))
			}
		}
	}
	if cases < 10 {
		t.Fatalf("only %d statements recognised in the generated code", cases)
	}
}
