package sqlcrud

// Bounded stand-in / counterexample search for the C05 kernel: in every generated statement the
// placeholders are exactly $1..$n for n arguments, and INSERT/UPDATE list as many columns as values.

import (
	"fmt"
	"os"
	"regexp"
	"strconv"
	"strings"
	"testing"

	an "github.com/benoitkugler/gomacro/analysis"
	gen "github.com/benoitkugler/gomacro/generator"
)

const govcModelSrc = `package m

type IdA int64
type IdB int64

type Tags []string

type NullB struct {
	Valid bool
	Id    IdB
}

// gomacro:SQL ADD UNIQUE(Name)
// gomacro:SQL ADD UNIQUE(Name, Rank)
// gomacro:SQL _SELECT KEY (Rank, Name)
type A struct {
	Id    IdA
	Name  string
	Rank  int
	Guard string ` + "`gomacro-sql-guard:\"'x'\"`" + `
	Tags  Tags
	Opt   NullB ` + "`gomacro-sql-foreign:\"B\"`" + `
}

type B struct {
	Name string
	Id   IdB
	V    float64
}

// gomacro:SQL ADD UNIQUE(IdA, IdB)
type Link struct {
	IdA  IdA
	IdB  IdB ` + "`gomacro-sql-on-delete:\"CASCADE\"`" + `
	Opt  NullB ` + "`gomacro-sql-foreign:\"B\"`" + `
	Note string
}
`

var (
	govcCall = regexp.MustCompile(`(?s)\.(Query|QueryRow|Exec)\(\s*(?:"((?:[^"\\]|\\.)*)"|` + "`([^`]*)`" + `)\s*((?:,[^;{}]*?)?)\)\s*\n`)
	govcPh   = regexp.MustCompile(`\$(\d+)`)
)

func govcTopLevelArgs(s string) int {
	s = strings.TrimSpace(strings.TrimPrefix(strings.TrimSpace(s), ","))
	if s == "" {
		return 0
	}
	depth, n := 0, 1
	for _, c := range s {
		switch c {
		case '(', '[', '{':
			depth++
		case ')', ']', '}':
			depth--
		case ',':
			if depth == 0 {
				n++
			}
		}
	}
	if strings.HasSuffix(strings.TrimSpace(s), ",") {
		n--
	}
	return n
}

func TestGovcHarness_Placeholders(t *testing.T) {
	root, err := os.MkdirTemp("/var/tmp", "govc-c05-")
	if err != nil {
		t.Fatal(err)
	}
	defer os.RemoveAll(root)
	os.WriteFile(root+"/go.mod", []byte("module example.com/org/m\n\ngo 1.21\n"), 0o644)
	os.WriteFile(root+"/root.go", []byte(govcModelSrc), 0o644)
	os.Setenv("GOFLAGS", "-mod=mod")
	os.Setenv("GOPROXY", "off")
	pkg, err := an.LoadSource(root + "/root.go")
	if err != nil {
		t.Fatal(err)
	}
	ana := an.NewAnalysisFromFile(pkg, root+"/root.go")
	code := gen.WriteDeclarations(Generate(ana, true))
	cases := 0
	defer func() { fmt.Printf("GOVC-CASES %d\n", cases) }()
	for _, m := range govcCall.FindAllStringSubmatch(code, -1) {
		query := m[2] + m[3]
		if strings.Contains(query, "%s") || strings.Contains(query, "\" +") {
			continue // assembled at run time
		}
		cases++
		nargs := govcTopLevelArgs(m[4])
		if strings.Contains(m[4], "...") {
			continue
		}
		seen := map[int]bool{}
		max := 0
		for _, ph := range govcPh.FindAllStringSubmatch(query, -1) {
			n, _ := strconv.Atoi(ph[1])
			seen[n] = true
			if n > max {
				max = n
			}
		}
		ok := max == nargs
		for i := 1; i <= max; i++ {
			if !seen[i] {
				ok = false
			}
		}
		if !ok {
			fmt.Printf("GOVC-FAIL {\"query\":%q,\"args\":%d}\n", query, nargs)
			t.Errorf("statement %q has placeholders %v for %d arguments (%s)", query, seen, nargs, strings.TrimSpace(m[4]))
		}
		// INSERT: as many columns as values
		if strings.HasPrefix(strings.TrimSpace(strings.ToUpper(query)), "INSERT") {
			parts := regexp.MustCompile(`(?is)\(([^)]*)\)\s*VALUES\s*\(([^)]*)\)`).FindStringSubmatch(query)
			if parts != nil && len(strings.Split(parts[1], ",")) != len(strings.Split(parts[2], ",")) {
				fmt.Printf("GOVC-FAIL {\"query\":%q}\n", query)
				t.Errorf("INSERT %q lists %d columns for %d values", query, len(strings.Split(parts[1], ",")), len(strings.Split(parts[2], ",")))
			}
		}
	}
	if cases < 10 {
		t.Fatalf("only %d statements recognised in the generated code", cases)
	}
}
