#!/usr/bin/env python3
"""Writes /verif/MANIFEST.json from the table below (kept in one place so that the claimed /
not-applicable split stays consistent)."""
import json, subprocess

KERNEL_NOTE = "proof of the named kernel obligations only; the behaviour of the emitted text under its target language is not decided by this check"

claimed = {
 "C17": dict(
   text="Deductive proof, for all inputs, of function contracts derived from the property statement on commonPrefix (result is an ancestor directory of every path, component-wise), selectByFile (exact first match), LoadSources (one package per file in order containing the file's absolute path; root ancestor of every file's directory; stat/load/type errors become errors; no runtime panic) and LoadSource. Verification conditions are generated on every run from /repo's typed AST and discharged by z3/cvc5; a failed obligation is replayed on the real code through a bounded search harness.",
   note="Trusted: govc (VC generator) and the SMT solvers; assumed extern contracts for os.Stat / filepath.Abs / filepath.Dir (pure functions of their argument during one call), packages.Load (arbitrary result, no nil element) and packages.PrintErrors; '/' is the path separator; len(sourceFiles) > 0 is a precondition of LoadSources; 'root is an existing directory' follows from ancestor-of-an-existing-directory (file-system axiom, not proved); integers mathematical.",
   ref="DESIGN §4 C17"),
}

claimed["C19"] = dict(
   text="Deductive proof, for all declaration lists, of the contract of WriteDeclarations taken from the property statement: the slice is permuted in place (same elements), all priority declarations precede all others, each group is in non-decreasing ID order, and the returned text is exactly, for that order, the content of the first occurrence of each distinct ID followed by a newline (recursive spec function `emitted`). The comparison closures are proved to be strict weak orders (the side condition of package sort). Order independence then follows because a key-sorted permutation in which equal keys imply equal elements is unique (lemma, see note).",
   note="Trusted: govc and the SMT solvers; assumed contracts of sort.Slice / sort.SliceStable (permutation without inversions; stable keeps ties in order) and of strings.Builder (append-only string) and Go map semantics; string '<' is an uninterpreted strict total order. The step from 'sorted by (priority, ID), same elements, equal IDs carry equal content' to 'the text is the same for every input order' is the uniqueness of sorted permutations, proved once in Lean 4 core (lemmas/sorted_perm_unique.lean, re-checked in the thorough tier; the correspondence between the Lean statement and the SMT postconditions is by hand) and exercised exhaustively by the bounded harness in the thorough tier.",
   ref="DESIGN §4 C19")

claimed["C10"] = dict(
   text="Deductive proof of contracts taken from the property statement. fetchPkgEnums: a named type is a key of the result exactly when the package scope holds a typed constant of it whose trailing comment does not opt out; while the member lists are built (loop 1) each list holds exactly those constants, each with its comment (invariants 5-6), distinct enums own distinct objects. setIsIota: members are only permuted; IsIota implies integer-backed, all values non-negative int64, values sorted over all members, pairwise distinct and downward closed over the exported ones (hence the k-th exported member has value k); and conversely every such block is flagged (completeness). sortBy.Swap/Less/Len are verified and, inside sort.Sort, Swap is proved to exchange both parallel slices and Less to be a strict weak order.",
   note="Trusted: govc and the SMT solvers; assumed contracts: sort.Sort (calls Len, then only Less/Swap in range; no inversion on return), go/types and go/constant accessors as pure functions (Scope.Names/Lookup, Const.Val/Type/Exported, constant.Int64Val), Go map semantics; fetchConstComment (syntax-tree navigation) is assumed to be a function of the constant returning its trailing comment; two finite-set counting lemmas (a subset of {0..m} with m+1 elements is {0..m}; {0..m} has m+1 elements) are axioms of the background theory; the last step 'sorted + distinct + downward closed => k-th exported value is k' is arithmetic not re-proved by SMT. After loop 2 of fetchPkgEnums the member-list facts are carried only through setIsIota's own contract (members permuted), not re-proved as a postcondition. The walk over imported packages is under C07/C11.",
   ref="DESIGN §4 C10")

claimed["C20"] = dict(
   text="Deductive proof by the lock-invariant rule (sequential proof rule of concurrent separation logic): the four cached probe results and their pointees are declared guarded by Formatters.lock; every read or write of them in the package generates an obligation that the mutex is held, Lock/Unlock are balanced on every path (deferred Unlock included) and never re-entered, guarded pointers are write-once (stored only while nil, only non-nil: a cached result is never dropped). With ghost counters on exec.Command(argv).Run(): each hasX probes exactly when no result was cached at lock time and returns the cached value; FormatFile runs the requested formatter exactly once when its tool is present and returns that run's error, starts no process and returns nil when the tool is absent or the format unknown, and probes each tool at most once per request. Given the soundness of the rule this holds for every interleaving and any number of goroutines.",
   note="Trusted: govc and the SMT solvers; the meta-theorem that lock-invariant reasoning is sound for sync.Mutex under the Go memory model (data-race freedom of guarded fields follows from 'accessed only while holding the lock'); assumed contract of os/exec: exec.Command(argv).Run() starts the process once and returns an arbitrary error. That cmd/gomacro.go:saveOutputs shares only the Formatters value between its goroutines is read from the source, not proved. The bounded harness (stub tools, 24 concurrent requests, go test -race) is the replay/stand-in only.",
   ref="DESIGN §4 C20")

claimed["C07"] = dict(
   text="Sequential Go is deterministic except at an enumerable set of sources (range over a map, select, go statements, math/rand, time.Now, ...). Every run enumerates them from the typed AST of all loaded packages; each must be covered by a rule whose obligations are generated from the real code and discharged by SMT: `commute` (symbolic double execution: the loop body run for two distinct keys in both orders from one arbitrary state ends in equal states) or `sorted-after` (each iteration only appends at most one element to one slice, which the next statement sorts with an order that is total on the appended elements). A source with no rule is itself a failed obligation. Sources covered only by a written argument (recursive closures over the import graph, iterations touching disjoint objects through contracts, the formatter goroutines) are listed as argued, are NOT counted as discharged, and are exercised by an always-run bounded check (all targets generated repeatedly in one process from four sources, byte-compared).",
   note="Trusted: govc and the SMT solvers; the meta-argument that a loop whose iterations pairwise commute (or whose only effect is a multiset sorted by a total order) is independent of iteration order; sort.Slice/sort.Sort/sort.Strings deterministic; distinct package-level named types have distinct qualified names; setImplements' table invariant accu[N].name == N; packages.Load / go list and the external formatters deterministic. Cross-process determinism follows from the same argument (no source reads process state) and is not separately exercised. 8 of 18 sources are argued, not proved (listed in the evidence).",
   ref="DESIGN §4 C07")

claimed["C18"] = dict(
   text="Zero-annotation safety sweep by the same VC generator over every function of analysis, analysis/sql, generator, gounions, randdata, sqlcrud, typescript, dart and generator/sql (all their functions): one obligation per index and slice bound, single-value type assertion, store into a possibly nil map, pointer dereference, method call on a possibly nil dependency object, division and make length; explicit panic(...) is a diagnostic exit. about two thirds of the ~680 sites are proved for all inputs on the unchanged tree (exact counts in the evidence); the others are listed by stable key in contracts/safety_baseline.json and are NOT claimed. The check fails when any site outside that list is unproved: a new unsafe site, or a proved site whose guard was weakened. A bounded harness (60 well-typed scratch packages in unusual spellings and with unsupported forms, through analysis and six generators, distinguishing runtime.Error from diagnostics) runs in every tier and supplies replays. Nine genuine crashes found this way were repaired in /repo (known_findings.json).",
   note="Trusted: govc and the SMT solvers; pointer receivers and pointer parameters assumed non-nil on entry; calls without contract return arbitrary values (sound over-approximation); go/types, go/ast, strings, regexp functions are opaque. Not decided: the unproved sites (mostly 'value read from the type graph is non-nil', i.e. the well-formedness of the analysis result, which this sweep does not establish), and the 'unbounded recursion' clause (termination of createType/handleType on cyclic declarations). analysis/httpapi is not swept.",
   ref="DESIGN §4 C18")

claimed["C11"] = dict(
   text="Deductive proof of contracts taken from the property statement. allNamedTypes: exactly the declared named types of the package scope, strictly increasing by name (hence each once, in name order). fetchPkgUnions: a named interface is a key exactly when some non-interface named type of the same package implements it (types.Implements, uninterpreted); its member list holds exactly those types, strictly increasing by name, never empty. createType (all 216 obligations, modular over the recursion with handleType): a union node carries the name of its type and one non-nil member node per member of the union, however it is reached; the analysis table never holds a nil node and the union stored for a named type carries that name. setImplements: the reported unions are exactly the analysed unions of the table that list the struct (both directions), strictly increasing by qualified name (each once); populateTypes applies it to every struct node of the table (ghost flag).",
   note="Trusted: govc and the SMT solvers; go/types accessors as pure functions with the axioms of contracts/extern/base.spec (Scope.Names sorted and duplicate free, Lookup(n).Name()==n, a declared named type's Obj().Type() is itself, distinct named types have distinct qualified names, aliases are *types.Alias); sort.Slice; fetchEnumsAndUnions (recursive closure over the import graph) has an ASSUMED contract (keys are named types, enum nodes non-nil) and a bounded harness; fetchStructComments is opaque. NOT proved: that every struct node reachable through links is a value of the table (closure half of C12).",
   ref="DESIGN §4 C11")

claimed["C09"] = dict(
   text="Kernel claim (" + KERNEL_NOTE + "). Proved for all inputs: StructField.JSONName returns the name part of the json tag (strings.Cut at the first comma) when not empty, else the Go field name; StructField.Exported holds exactly when the Go field is exported, the json tag is not \"-\" and the gomacro tag is not \"ignore\" (the encoding/json rules, transcribed); handleStructFields yields, for every non-embedded field, an entry carrying exactly that field's variable and tag; and the skip lemma in the four generator loops that consume the fields (typescript.codeForStruct, dart.jsonForStruct, dart.codeForStruct, generator/sql.codeForStruct): an iteration on a field that is not Exported() leaves every loop-carried variable unchanged. An always-run bounded harness compares with encoding/json itself (reflect.StructOf + json.Marshal) and checks the metamorphic pair (struct, struct + ignored fields). Two genuine deviations are recorded as known findings (tagged / hidden embedded structs are flattened; ignored fields of unsupported types abort the analysis).",
   note="Trusted: govc and the SMT solvers; reflect.StructTag.Get and strings.Cut as uninterpreted functions; the transcription of the encoding/json field rules; nodes of the analysis result are not written outside package analysis (checked syntactically at load); in the generator loops every callee without contract is havocked. Not decided: that the emitted TypeScript / Dart / PL-pgSQL texts actually use the key (needs their grammars); which fields an embedded struct contributes (known finding).",
   ref="DESIGN §4 C09")

claimed["C12"] = dict(
   text="Kernel claim: the induction steps and the source order, proved for all inputs. createType (modular over its recursion with handleType): the node built for a type has the kind go/types reports — an Array node for an array (Len = its length) or a slice (Len = -1) with a non-nil element node, a Map node with non-nil key and element nodes, a Pointer node, a Basic node holding exactly the underlying *types.Basic, a Struct node carrying the named type, the enum node of the context for an enum, a Union node carrying the named type with one non-nil member node per member; the table never holds a nil node. Type() of every node kind rebuilds the Go type from the node's own links (array iff Len >= 0, slice otherwise; map from key and element; pointer; the stored name / basic; time and date as the two predefined types). NewAnalysisFromFile reports exactly the type names of the package scope declared in the given file, in increasing source position. An always-run bounded harness checks closure, types.Identical round trips and termination on one module with recursive and mutually recursive declarations.",
   note="Trusted: govc and the SMT solvers; go/types accessors and constructors as uninterpreted functions with the axioms of contracts/extern/base.spec; every implementation of Type.Type() is a pure function of the node (interface dispatch is one uninterpreted function: the per-kind contracts are NOT linked back to it); fetchEnumsAndUnions and fetchStructComments have assumed contracts pinned to their code. NOT decided by this check: closure (every reachable type is in the result), the global identity of round trips over cyclic graphs, and termination of the analysis on recursive declarations — they need a coinductive argument over the finite go/types graph and an in-progress set the memo table does not separate; the bounded harness is all there is for them.",
   ref="DESIGN §4 C12")

claimed["C15"] = dict(
   text="Kernel claim (" + KERNEL_NOTE + "). Proved for all inputs, on the generator functions: codeForEnum builds a choice list with no empty entry, every entry being the printed name of an exported member and every exported member having its entry (the emitted array literal is joined from that list); codeForUnion builds one generator call per member, in member order, and passes len(Members) > 0 to rand.Intn; codeForStruct: a field that is unexported or tagged gomacro-data:\"ignore\" contributes no assignment and no recursive generation (skip lemma). One genuine defect was found and repaired (empty entries for unexported members, b9aa39f).",
   note="Trusted: govc and the SMT solvers; types.ObjectString / strings.Fields described by uninterpreted functions (a printed constant has at least two non-empty fields); unions are never empty (established by fetchPkgUnions and createType under C11, a precondition here); callees without contract are havocked. NOT decided — and known to be false on the tree for recursive types: termination of the emitted functions (the generator emits an unconditional call per element with slice length >= 3, so every cyclic type diverges), the values they return, their variation under different seeds, the JSON round trip: all of that is the run-time meaning of emitted Go, which this family cannot express. A pass of this check must not be read as 'C15 holds'.",
   ref="DESIGN §4 C15")

claimed["C16"] = dict(
   text="Kernel claim (" + KERNEL_NOTE + "). Proved for all inputs: newCustomQuery — over the list of `field = $name$` matches of the comment, there is exactly one input per distinct placeholder name, taken from the first occurrence of the name and typed like the field it is compared with there, the inputs are in order of first occurrence, and the replacer maps $name$ of the k-th input to $k+1 (31 obligations, no choice function); processComments — the SQL comments kept as constraints are exactly the SQL comments that are not select keys, queries only go to CustomQueries, earlier constraints are untouched; the word-replacement closure of TableNameReplacer.Replace — a word is replaced exactly when it is a key of the replacer, by its value, otherwise returned unchanged; the closure after REFERENCES — the name is replaced by its SQL table name; generateCustomConstraint — an ADD constraint is attached to the SQL table of the struct carrying the comment; the closure of ReplaceEnums — the placeholder is replaced by the SQL literal of the constant (numbers as written, strings single-quoted) of the named enum; generateCustomQueries — one parameter (name, printed type) and one argument per input, in input order. One genuine defect found and repaired (string enum placeholders were double-quoted, b6c7d0b).",
   note="Trusted: govc and the SMT solvers; regexp (FindAllStringSubmatch returns one group list of length 3 per match; ReplaceAllStringFunc applies the closure to every match and keeps the rest: the engine itself is not modelled), strings.Cut / ReplaceAll / NewReplacer, fmt.Sprintf as uninterpreted functions; the classifiers isSelectKey / isUniqueConstraint are functions of the comment. Call-argument clauses (callarg) pin what is handed to Sprintf, not the template text. Not decided: which struct a comment is attributed to (fetchStructComments navigates the syntax tree by position), regular-expression semantics (what counts as a word, as a placeholder), the SQL meaning of the result.",
   ref="DESIGN §4 C16")

claimed["C05"] = dict(
   text="Kernel claim (" + KERNEL_NOTE + "): the column alignment and the placeholder arithmetic of the CRUD generator, proved for all tables. newColumnsCode: the five parallel lists have the same length; position k of the scan list, the value list, the quoted and plain column-name lists is built from the SAME non-guard column, every non-guard column occurs, guards occur in none; placeholder k is $k+1; the lists without the primary key are aligned the same way over the columns other than the primary one, with their own $k+1; when the primary key is a regular column the full lists have exactly one more entry — which is what makes $<columnsCount> the next free placeholder of UPDATE ... WHERE id =. Table.Primary returns the first column whose lower-cased name is id (or -1). columnsComparison / columsFuncTitle / columsVarDecls: the k-th comparison, title part, variable and declaration all come from column k, comparison k uses $k+1. Link tables: comparison k uses $k+1 (both occurrences for nullable keys) and the k-th accessed field is the same foreign key. sqlColumnName is the lower-cased Go name; both generators call the one SQLTableName.",
   note="Trusted: govc and the SMT solvers; fmt.Sprintf, strings.ToLower, reflect.StructTag.Get as uninterpreted functions (a statement about which column feeds which position, not about the printed characters); PostgreSQL folds unquoted identifiers, so the lower-cased column name of the CRUD code denotes the column the schema declares with its Go name (assumed). Not decided: the statement templates that consume these lists (the Sprintf texts), execution against a database, the map-model behaviour of insert/select/update/delete. A bounded harness checks, on one model file, that every statically known generated statement has placeholders exactly $1..$n for its n arguments.",
   ref="DESIGN §4 C05")

not_applicable = {
 "C01": "type-checking of emitted Go text for all inputs needs a typing judgement over Sprintf templates; no contract on a Go function returning a string can express it (DESIGN §5)",
 "C02": "round trip and wire bytes are run-time behaviour of the emitted wrappers under encoding/json; a contract on the generator can only restate its templates (DESIGN §5)",
 "C03": "inhabitation of an emitted TypeScript type needs the TypeScript type system; out of reach of Go function contracts (DESIGN §5)",
 "C04": "evaluating emitted PL/pgSQL validators needs PostgreSQL jsonb semantics over emitted text (DESIGN §5)",
 "C06": "behaviour and cross-file linkage of emitted Dart programs; the pieces expressible as contracts restate the templates (DESIGN §5)",
 "C13": "the extractor is a visitor over arbitrary Go syntax trees with closures passed to ast.Inspect; a contract would need a formal notion of route registration, i.e. the code again (DESIGN §5)",
 "C14": "what request a generated Axios method performs is the run-time meaning of emitted TypeScript (DESIGN §5)",
}

pending = {  # not yet built in this round: listed as not applicable *for now* with that reason
}

ENV = "GOFLAGS=-mod=mod GOPROXY=off GOSUMDB=off GOTOOLCHAIN=local"

def main():
    props = [json.loads(l)["id"] for l in open("/verif/properties.jsonl")]
    hooks = subprocess.run(["git","-C","/repo","log","--format=%h %s"],capture_output=True,text=True).stdout.splitlines()
    hook_commits = [l.split()[0] for l in hooks if "verif hook" in l]
    checks = []
    for pid in props:
        if pid in claimed:
            c = claimed[pid]
            checks.append({
              "property_id": pid,
              "quick_cmd": f"./bin/govc check {pid} --tier quick",
              "thorough_cmd": f"./bin/govc check {pid} --tier thorough",
              "evidence_file": f"/verif/evidence/{pid}.json",
              "replay_cmd_template": "./bin/govc replay {path}",
              "engine": "govc",
              "level_claimed": {"category": "proof", "text": c["text"], "design_ref": c["ref"]},
              "level_note": c["note"],
              "technique": c.get("technique", "contract-based deductive verification: weakest-precondition VCs generated from the typed Go AST (go/packages + go/types), contracts in build-tag-guarded comment files, discharged by an SMT portfolio (z3 4.8.12, z3 5.1.0, cvc5 1.0)"),
            })
    na = []
    for pid in props:
        if pid in claimed: continue
        reason = not_applicable.get(pid) or pending.get(pid) or "not claimed: kernel contracts not discharged within budget (DESIGN §3 drop rule)"
        na.append({"property_id": pid, "reason": reason})
    m = {
      "version": 1,
      "setup_cmd": f"cd /verif/govc && {ENV} go build -o /verif/bin/govc .",
      "hooks": {
        "guard": "verif",
        "enable": "go build -tags verif (the guarded files are comment-only contract files <pkg>/contracts_verif.go; govc loads /repo with -tags verif)",
        "baseline_off_cmd": "/verif/scripts/baseline.sh",
        "source_commits": hook_commits,
        "add_only": True,
      },
      "engines": [{"name": "govc", "path": "/verif/govc", "serves_properties": sorted(claimed), "kind_free_text": "self-built deductive verifier for Go: contracts (requires/ensures/invariant/decreases/modifies) in comment files, VC generation by symbolic execution with loop-invariant cuts and modular calls, SMT portfolio, bounded replay harnesses"}],
      "checks": checks,
      "not_applicable": na,
      "notes": "See DESIGN.md. known_findings.json lists recorded findings and fixed defects. Checks never run the repository's own test suite inside /repo (it rewrites fixtures); replay/bounded harnesses are injected with go test -overlay.",
    }
    json.dump(m, open("/verif/MANIFEST.json","w"), indent=1)
    print("claimed:", sorted(claimed), "n/a:", [x["property_id"] for x in na])

if __name__ == "__main__":
    main()
