#!/bin/bash
# Runs the repository's own test suite (guard OFF) on a scratch copy of /repo's working tree
# (the suite rewrites its fixture files, so it is never run inside /repo) and compares the
# passing tests with the stable baseline in /root/.vp/BASELINE.json.
set -u
export GOFLAGS=-mod=mod GOPROXY=off GOSUMDB=off GOTOOLCHAIN=local
SCRATCH=$(mktemp -d /var/tmp/govc-base-XXXXXX)
trap 'rm -rf "$SCRATCH"' EXIT
rsync -a --exclude .git /repo/ "$SCRATCH/repo/"
cd "$SCRATCH/repo"
go test -json -vet=off -count=1 -timeout 25m ./... > "$SCRATCH/out.json" 2>"$SCRATCH/err.txt"
python3 - "$SCRATCH/out.json" <<'PY'
import json,sys
passed=set(); failed=set()
for l in open(sys.argv[1]):
    try: e=json.loads(l)
    except Exception: continue
    if e.get('Test') and '/' not in e['Test']:
        k=e['Package']+'::'+e['Test']
        if e['Action']=='pass': passed.add(k)
        if e['Action']=='fail': failed.add(k)
base=json.load(open('/root/.vp/BASELINE.json'))
stable=set(base['stable_pass'])
missing=sorted(stable-passed)
print("baseline: %d/%d stable tests pass; failed=%s" % (len(stable&passed), len(stable), sorted(failed)))
if missing:
    print("MISSING:", missing); sys.exit(1)
PY
