#!/usr/bin/env python3
"""Prints the per-property status table of DESIGN §11.2 from the evidence files of the last runs."""
import json, glob
print("| id | level | functions / obligations / discharged | known findings | bounded harnesses (cases) | wall (quick) |")
print("|---|---|---|---|---|---|")
for f in sorted(glob.glob("/verif/evidence/C*.json")):
    d = json.load(open(f)); c = d["coverage"]
    fns = c.get("functions_under_contract") or []
    b = "; ".join(f"{x['harness'].replace('TestGovcHarness_','')} ({x['cases']})" for x in (c.get("bounded") or []))
    print(f"| {d['property_id']} | {d['level']} | {len(fns)} / {c.get('obligations')} / {c.get('discharged')} | {c.get('known_findings', d.get('known', ''))} | {b} | {d.get('wall_s',0):.0f} s |")
