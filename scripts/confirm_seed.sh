#!/bin/bash
# confirm_seed.sh <worktree> <outdir> <k> <seed-name> <property> : confirms a seeded change in the scratch
# worktree (compiles, existing tests pass, demo fails with / passes without) and stores it under /verif/seeded/.
set -u
export GOFLAGS=-mod=mod GOPROXY=off GOSUMDB=off GOTOOLCHAIN=local
WT=$1; OUT=$2; K=$3; NAME=$4; PROP=$5
cd "$WT" || exit 2
git checkout -q -- . ; git clean -qfd
PATCH=$OUT/patch$K.diff; DEMO=$OUT/demo${K}_test.go
place=$(grep -o -m1 '[a-z/]*zz_[a-z0-9_]*_test.go' "$DEMO" | head -1)
[ -z "$place" ] && place=$(head -5 "$DEMO" | grep -o -m1 '[a-zA-Z/_]*_test.go' | head -1)
pkgdir=$(dirname "$place")
echo "demo placement: $place"
cp "$DEMO" "$WT/$place"
demo_run() { (cd "$WT" && go test -vet=off -count=1 -run 'Demo|demo|Seed|seed|ZZ|Zz' ./$pkgdir/ 2>&1 | tail -5); }
echo "--- demo WITHOUT change"; r0=$(demo_run); echo "$r0" | tail -3
patch -p1 -s --no-backup-if-mismatch -i "$PATCH" || { echo "PATCH FAILED"; exit 1; }
echo "--- build"; go build ./analysis/ ./analysis/sql/ ./analysis/httpapi/ ./generator/... ./cmd/ && echo build-ok
echo "--- demo WITH change"; r1=$(demo_run); echo "$r1" | tail -3
rm -f "$WT/$place"
echo "--- existing tests WITH change"
go test -vet=off -count=1 ./analysis/ ./analysis/httpapi/ ./generator/... ./cmd/... 2>&1 | grep -v "no test files" | tail -15
git checkout -q -- . ; git clean -qfd
mkdir -p /verif/seeded/$NAME
cp "$PATCH" /verif/seeded/$NAME/patch.diff; cp "$DEMO" /verif/seeded/$NAME/demo_test.go; cp "$OUT/notes$K.md" /verif/seeded/$NAME/notes.md
echo "stored /verif/seeded/$NAME"
