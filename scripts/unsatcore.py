#!/usr/bin/env python3
"""unsatcore.py <file.smt2>: prints the assertions in z3's unsat core (debugging aid for vacuous proofs)"""
import sys,re,subprocess
src=open(sys.argv[1]).read().split('\n')
out=[];n=0;names={}
for l in src:
    if l.startswith('(assert '):
        n+=1; names['a%d'%n]=l
        out.append('(assert (! %s :named a%d))'%(l[len('(assert '):-1],n))
    elif l.startswith('(check-sat'):
        out.append('(check-sat)\n(get-unsat-core)')
    elif l.startswith('(set-option :produce-models'):
        out.append('(set-option :produce-unsat-cores true)')
    else: out.append(l)
open('/var/tmp/core.smt2','w').write('\n'.join(out))
r=subprocess.run(['z3-new','-T:60','/var/tmp/core.smt2'],capture_output=True,text=True)
print(r.stdout[:300])
core=re.findall(r'a\d+',r.stdout.split('\n',1)[1] if '\n' in r.stdout else '')
for c in core: print(c, names[c][:int(sys.argv[2]) if len(sys.argv)>2 else 300]); print()
