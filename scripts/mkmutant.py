#!/usr/bin/env python3
"""mkmutant.py <name> <file relative to /repo> <old> <new> [<file2> <old2> <new2> ...]: writes selftest/mutants/<name>.patch"""
import sys, difflib, os
name = sys.argv[1]
out = []
args = sys.argv[2:]
for i in range(0, len(args), 3):
    f, old, new = args[i:i+3]
    src = open(os.path.join("/repo", f)).read()
    if src.count(old) != 1:
        sys.exit(f"{f}: pattern occurs {src.count(old)} times")
    dst = src.replace(old, new)
    out += difflib.unified_diff(src.splitlines(True), dst.splitlines(True), "a/"+f, "b/"+f)
open(f"/verif/selftest/mutants/{name}.patch", "w").write("".join(out))
print("wrote", name, len(out), "lines")
