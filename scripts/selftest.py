#!/usr/bin/env python3
"""Must-fail corpus: applies each mutant (patch) to a scratch copy of /repo under /var/tmp, runs the
property's quick check against the copy (GOVC_REPO), expects exit 1 with a VIOLATION line, and
checks that the pristine copy passes. Usage: selftest.py [Cxx ...] [--only name] [--match substring-of-name]"""
import json, os, shutil, subprocess, sys, tempfile, glob, time

VERIF = "/verif"
def run(cmd, **kw):
    return subprocess.run(cmd, capture_output=True, text=True, **kw)

RESULTS = f"{VERIF}/selftest/catches.json"
def record(name, prop, patch, obls, replayed, builds):
    """which obligations caught which change: kept in selftest/catches.json (rendered by scripts/catches.py)"""
    try: d = json.load(open(RESULTS))
    except Exception: d = {}
    d[f"{name}/{prop}"] = {"change": name, "property": prop, "kind": "seeded (independent sub-agent)" if patch.endswith("patch.diff") else "mutant",
                           "obligations": sorted(set(obls)), "failing_input_replayed": replayed, "builds": builds}
    json.dump(d, open(RESULTS, "w"), indent=1, sort_keys=True)

def main():
    want = [a for a in sys.argv[1:] if not a.startswith("--")]
    only = None
    if "--only" in sys.argv:
        only = sys.argv[sys.argv.index("--only")+1]
        want = [w for w in want if w != only]
    match = None
    if "--match" in sys.argv:
        match = sys.argv[sys.argv.index("--match")+1]
        want = [w for w in want if w != match]
    muts = []
    for d in sorted(glob.glob(f"{VERIF}/selftest/mutants/*.patch")) + sorted(glob.glob(f"{VERIF}/seeded/*/patch.diff")):
        if d.endswith("patch.diff"):
            meta = json.load(open(os.path.join(os.path.dirname(d), "meta.json")))
            name = os.path.basename(os.path.dirname(d))
            props = [meta["property"]] if isinstance(meta["property"], str) else meta["property"]
        else:
            name = os.path.basename(d)[:-6]
            props = [name.split("_")[0]]
        if want and not any(p in want for p in props): continue
        if only and only != name: continue
        if match and match not in name: continue
        muts.append((name, d, props))
    benign = []
    for d in sorted(glob.glob(f"{VERIF}/selftest/benign/*.patch")):
        name = os.path.basename(d)[:-6]
        props = [name.split("_")[0]]
        if want and not any(p in want for p in props): continue
        if only and only != name: continue
        if match and match not in name: continue
        benign.append((name, d, props))
    if "--benign-only" in sys.argv:
        muts = []
    scratch = tempfile.mkdtemp(prefix="govc-self-", dir="/var/tmp")
    copy = os.path.join(scratch, "repo")
    try:
        run(["rsync", "-a", "--exclude", ".git", "/repo/", copy + "/"])
        env = dict(os.environ, GOVC_REPO=copy)
        results = []
        props_seen = sorted({p for _,_,ps in muts + benign for p in ps})
        for p in props_seen:
            t0 = time.time()
            r = run([f"{VERIF}/bin/govc", "check", p, "--tier", "quick", "--evidence-dir", os.path.join(scratch, "ev")], env=env, cwd=VERIF)
            ok = r.returncode == 0 and "VIOLATION" not in r.stdout
            print(f"pristine {p}: exit={r.returncode} {'OK' if ok else 'UNEXPECTED'} ({time.time()-t0:.0f}s)")
            if not ok: print(r.stdout[-2000:], r.stderr[-1000:])
            results.append(("pristine-"+p, ok))
        for name, patch, ps in muts:
            a = run(["patch", "-p1", "--no-backup-if-mismatch", "-i", patch], cwd=copy)
            if a.returncode != 0:
                print(f"{name}: PATCH DOES NOT APPLY\n{a.stdout[-500:]}")
                results.append((name, False)); 
                run(["rsync", "-a", "--delete", "--exclude", ".git", "/repo/", copy + "/"])
                continue
            b = run(["go", "build", "./analysis/", "./analysis/sql/", "./analysis/httpapi/", "./generator/...", "./cmd/"], cwd=copy, env=dict(env, GOFLAGS="-mod=mod", GOPROXY="off", GOSUMDB="off", GOTOOLCHAIN="local"))
            builds = "import cycle" in b.stderr or b.returncode == 0
            for p in ps:
                t0 = time.time()
                r = run([f"{VERIF}/bin/govc", "check", p, "--tier", "quick", "--evidence-dir", os.path.join(scratch, "ev")], env=env, cwd=VERIF)
                viol = [l for l in r.stdout.splitlines() if l.startswith("VIOLATION")]
                caught = r.returncode == 1 and bool(viol)
                found = any("no-failing-input-found" not in l for l in viol)
                print(f"{name} [{p}]: exit={r.returncode} {'CAUGHT' if caught else 'MISSED'}{' (failing input replayed)' if caught and found else (' (no-failing-input-found)' if caught else '')} builds={builds} ({time.time()-t0:.0f}s)")
                if caught:
                    obls = []
                    for l in r.stdout.splitlines():
                        if l.startswith("govc: obligation"):
                            print("    ", l[:200])
                            obls.append(l.split()[2])
                    record(name, p, patch, obls, found, builds)
                else:
                    print(r.stdout[-1500:], r.stderr[-800:])
                results.append((name+"/"+p, caught))
            run(["patch", "-R", "-p1", "--no-backup-if-mismatch", "-i", patch], cwd=copy)
        # benign edits (refactorings that keep the property): the check must stay quiet
        for name, patch, ps in benign:
            a = run(["patch", "-p1", "--no-backup-if-mismatch", "-i", patch], cwd=copy)
            if a.returncode != 0:
                print(f"{name}: PATCH DOES NOT APPLY"); results.append((name, False)); continue
            for p in ps:
                t0 = time.time()
                r = run([f"{VERIF}/bin/govc", "check", p, "--tier", "quick", "--evidence-dir", os.path.join(scratch, "ev")], env=env, cwd=VERIF)
                quiet = r.returncode == 0 and "VIOLATION" not in r.stdout
                print(f"{name} [{p}] (benign): exit={r.returncode} {'QUIET' if quiet else 'FALSE ALARM'} ({time.time()-t0:.0f}s)")
                if not quiet: print(r.stdout[-1500:])
                results.append((name+"/"+p, quiet))
            run(["patch", "-R", "-p1", "--no-backup-if-mismatch", "-i", patch], cwd=copy)
        bad = [n for n, ok in results if not ok]
        print(f"selftest: {len(results)-len(bad)}/{len(results)} as expected" + (f"; NOT as expected: {bad}" if bad else ""))
        sys.exit(1 if bad else 0)
    finally:
        shutil.rmtree(scratch, ignore_errors=True)

if __name__ == "__main__":
    main()
