#!/bin/bash
# runs every claimed quick check on the unchanged tree; non-zero exit if any alarms
cd /verif
rc=0
for p in $(python3 -c "import json; print(' '.join(c['property_id'] for c in json.load(open('MANIFEST.json'))['checks']))"); do
  out=$(./bin/govc check $p 2>&1); e=$?
  echo "$out" | tail -1
  if [ $e -ne 0 ]; then rc=1; echo "$out" | grep -E "VIOLATION|obligation" | head -5; fi
done
exit $rc
