#!/bin/bash
# confirm_seed2.sh <worktree> <outdir> <k> <seed-name> : like confirm_seed.sh, reads "PLACE AT <path>" from the demo header
set -u
export GOFLAGS=-mod=mod GOPROXY=off GOSUMDB=off GOTOOLCHAIN=local
WT=$1; OUT=$2; K=$3; NAME=$4
cd "$WT" || exit 2
git checkout -q -- . ; git clean -qfd
PATCH=$OUT/patch$K.diff; DEMO=$OUT/demo${K}_test.go
place=$(grep -o -m1 'PLACE AT *[A-Za-z0-9_/.-]*' "$DEMO" | awk '{print $3}')
pkgdir=$(dirname "$place")
echo "demo placement: $place"
cp "$DEMO" "$WT/$place"
demo_run() { (cd "$WT" && go test -vet=off -count=1 -run "TestDemo$K" ./$pkgdir/ 2>&1 | tail -3); }
echo "--- demo WITHOUT change"; demo_run | tail -1
patch -p1 -s --no-backup-if-mismatch -i "$PATCH" || { echo "PATCH FAILED"; exit 1; }
echo "--- build"; go build ./analysis/ ./analysis/sql/ ./analysis/httpapi/ ./generator/... ./cmd/ && echo build-ok
echo "--- demo WITH change"; demo_run | tail -1
rm -f "$WT/$place"
echo "--- existing tests WITH change"
go test -vet=off -count=1 ./analysis/ ./analysis/httpapi/ ./generator/... ./cmd/... 2>&1 | grep -v "no test files\|^ok" | tail -8
git checkout -q -- . ; git clean -qfd
mkdir -p /verif/seeded/$NAME
cp "$PATCH" /verif/seeded/$NAME/patch.diff; cp "$DEMO" /verif/seeded/$NAME/demo_test.go; cp "$OUT/notes$K.md" /verif/seeded/$NAME/notes.md
echo "stored /verif/seeded/$NAME"
