package main

import (
	"encoding/json"
	"flag"
	"fmt"
	"os"
	"os/exec"
	"path/filepath"
	"sort"
	"strconv"
	"strings"
	"time"
)

// ---- property table

type PropDef struct {
	ID         string
	Title      string
	DesignRef  string
	SafetyPkgs []string // zero-annotation safety sweep over these packages (C18)
	Ordind     bool     // nondeterminism-source enumeration (C07)
	Locks      bool     // lock discipline obligations (C20)
	Lemmas     []string // Lean lemma files checked in the thorough tier
	Trusted    []string
	Undecided  string // what this check does not decide (kernel claims)
}

var props = map[string]*PropDef{}

var evidenceDir string

var vacuityProbes int

var regexNotes []string

func registerProps() {
	for _, p := range []*PropDef{
		{ID: "C17", Title: "Source loading maps every file to its package and a real common root", DesignRef: "§4 C17"},
		{ID: "C19", Title: "Declaration assembly is a set-like, order-independent merge", DesignRef: "§4 C19", Lemmas: []string{"sorted_perm_unique.lean"}, Trusted: []string{"lemma sorted_perm_unique (Lean 4 core, /verif/lemmas/sorted_perm_unique.lean, re-checked in the thorough tier): a key-sorted permutation whose equal-key elements are equal is unique; its hand correspondence with the SMT-level postconditions (sorted by (priority, ID); same elements)"}},
		{ID: "C10", Title: "Enum detection is exact", DesignRef: "§4 C10", Lemmas: []string{"interval_card.lean"}, Trusted: []string{"lemmas pigeonhole / interval_card (Lean 4 + Mathlib, /verif/lemmas/interval_card.lean, re-checked in the thorough tier): a subset of {0..m} with m+1 elements is {0..m}, and {0..m} has m+1 elements; their hand correspondence with the two cardinality axioms of the background theory (len(map) as the cardinality of the key set)"}},
		{ID: "C11", Title: "Union detection and membership are exact", DesignRef: "§4 C11", Trusted: []string{}},
		{ID: "C07", Title: "Generation is deterministic", DesignRef: "§4 C07", Ordind: true},
		{ID: "C18", Title: "Unsupported input is refused with a diagnostic, never a crash", DesignRef: "§4 C18"},
		{ID: "C20", Title: "Formatter probing is race-free, cached and optional", DesignRef: "§4 C20", Locks: true},
		{ID: "C09", Title: "Field selection and JSON naming coincide with encoding/json", DesignRef: "§4 C09"},
		{ID: "C16", Title: "SQL comment directives are expanded exactly", DesignRef: "§4 C16"},
		{ID: "C05", Title: "Generated CRUD code and generated schema agree", DesignRef: "§4 C05"},
		{ID: "C08", Title: "The SQL schema is a faithful image of the table structs", DesignRef: "§4 C08"},
		{ID: "C15", Title: "Generated random-data functions terminate and return well-formed values", DesignRef: "§4 C15"},
		{ID: "C12", Title: "The analysed type graph is closed, faithful and finite", DesignRef: "§4 C12"},
	} {
		props[p.ID] = p
	}
}

// ---- known findings

type Finding struct {
	Property   string `json:"property"`
	Obligation string `json:"obligation"` // obligation name prefix (without @ret suffix variations)
	What       string `json:"what"`
	Witness    string `json:"witness,omitempty"`
}

type FixedEntry struct {
	Property string `json:"property"`
	Commit   string `json:"commit"`
	What     string `json:"what"`
}

type KnownFindings struct {
	Findings []Finding    `json:"findings"`
	Fixed    []FixedEntry `json:"fixed"`
}

func loadKnown() *KnownFindings {
	kf := &KnownFindings{}
	data, err := os.ReadFile(filepath.Join(verifDir, "known_findings.json"))
	if err == nil {
		json.Unmarshal(data, kf)
	}
	return kf
}

// matchWitness: a bounded-check failure is a known finding only if its failing input carries the recorded witness.
func (kf *KnownFindings) matchWitness(prop, obl, failLine string) *Finding {
	for i := range kf.Findings {
		f := &kf.Findings[i]
		if f.Property == prop && f.Obligation == obl && f.Witness != "" && strings.Contains(failLine, f.Witness) {
			return f
		}
	}
	return nil
}

func (kf *KnownFindings) match(prop, obl string) *Finding {
	for i := range kf.Findings {
		f := &kf.Findings[i]
		if f.Property == prop && (f.Obligation == obl || strings.HasPrefix(obl, f.Obligation+"@") || strings.HasPrefix(obl, f.Obligation+":")) {
			return f
		}
	}
	return nil
}

// ---- harness index

type HarnessDef struct {
	Func    string `json:"func"`    // full function key this harness exercises
	Pkg     string `json:"pkg"`     // package dir relative to the repo, e.g. "analysis"
	File    string `json:"file"`    // harness source under /verif/harness
	Test    string `json:"test"`    // test function name
	Scope   string `json:"scope"`   // stated bound
	Props   []string `json:"props"`
	Race    bool     `json:"race,omitempty"` // run under the race detector
	Always  bool     `json:"always,omitempty"` // function is NOT under contract: its bounded check runs in every tier (never counted as proved)
}

func loadHarnesses() []HarnessDef {
	var hs []HarnessDef
	data, err := os.ReadFile(filepath.Join(verifDir, "harness", "index.json"))
	if err == nil {
		if err := json.Unmarshal(data, &hs); err != nil {
			fmt.Fprintln(os.Stderr, "harness index:", err)
		}
	}
	return hs
}

type HarnessRun struct {
	Def      HarnessDef
	Ran      bool
	Failed   bool
	FailLine string // first GOVC-FAIL payload
	FailLines []string // every GOVC-FAIL payload (a harness may go on after a failure)
	Cases    int
	Output   string
	BuildErr bool
	WallS    float64
}

// runHarness injects the harness as an in-package test through -overlay (nothing is written
// under /repo) and runs it against the real code.
func runHarness(h HarnessDef, tier string, seed int64, replay string) HarnessRun {
	hr := HarnessRun{Def: h, Ran: true}
	t0 := time.Now()
	tmp, err := os.MkdirTemp("/var/tmp", "govc-ov-")
	if err != nil {
		hr.Output = err.Error()
		hr.BuildErr = true
		return hr
	}
	defer os.RemoveAll(tmp)
	src := filepath.Join(verifDir, "harness", h.File)
	dst := filepath.Join(repoDir, h.Pkg, "zz_govc_harness_test.go")
	ov := map[string]map[string]string{"Replace": {dst: src}}
	ovData, _ := json.Marshal(ov)
	ovFile := filepath.Join(tmp, "ov.json")
	os.WriteFile(ovFile, ovData, 0o644)
	args := []string{"test", "-v", "-overlay", ovFile, "-vet=off", "-count=1", "-timeout", "300s", "-run", "^" + h.Test + "$", "./" + h.Pkg}
	if h.Race {
		args = append(args[:1], append([]string{"-race"}, args[1:]...)...)
	}
	cmd := exec.Command("go", args...)
	cmd.Dir = repoDir
	cmd.Env = append(os.Environ(), "GOFLAGS=-mod=mod", "GOPROXY=off", "GOSUMDB=off", "GOTOOLCHAIN=local",
		"GOVC_TIER="+tier, "GOVC_SEED="+strconv.FormatInt(seed, 10), "GOVC_REPLAY="+replay)
	out, err := cmd.CombinedOutput()
	hr.Output = string(out)
	hr.WallS = time.Since(t0).Seconds()
	for _, l := range strings.Split(hr.Output, "\n") {
		l = strings.TrimSpace(l)
		if i := strings.Index(l, "GOVC-FAIL "); i >= 0 {
			hr.Failed = true
			hr.FailLines = append(hr.FailLines, l[i+len("GOVC-FAIL "):])
			if hr.FailLine == "" {
				hr.FailLine = l[i+len("GOVC-FAIL "):]
			}
		}
		if i := strings.Index(l, "GOVC-CASES "); i >= 0 {
			n, _ := strconv.Atoi(strings.TrimSpace(l[i+len("GOVC-CASES "):]))
			hr.Cases += n
		}
	}
	if err != nil && !hr.Failed {
		if strings.Contains(hr.Output, "[build failed]") || strings.Contains(hr.Output, "[setup failed]") {
			hr.BuildErr = true
		} else if strings.Contains(hr.Output, "--- FAIL") || strings.Contains(hr.Output, "panic:") || strings.Contains(hr.Output, "DATA RACE") {
			hr.Failed = true
			hr.FailLine = "test failed without GOVC-FAIL line (panic?)"
			if strings.Contains(hr.Output, "DATA RACE") {
				hr.FailLine = "DATA RACE reported by the race detector (64 concurrent FormatFile requests on one cache)"
			}
		} else {
			hr.BuildErr = true
		}
	}
	if err == nil && !hr.Failed && hr.Cases == 0 {
		// vacuity guard: a bounded stand-in that explored nothing must not read as a pass
		hr.Failed = true
		hr.FailLine = "the bounded harness explored zero cases (no GOVC-CASES line): it recognises nothing in what the code now produces"
	}
	return hr
}

// ---- evidence

type Evidence struct {
	PropertyID  string                 `json:"property_id"`
	Tier        string                 `json:"tier"`
	Seed        int64                  `json:"seed"`
	Level       string                 `json:"level"`
	Coverage    map[string]interface{} `json:"coverage"`
	Assumptions []string               `json:"assumptions"`
	WallS       float64                `json:"wall_s"`
	Violations  int                    `json:"violations"`
}

type checkCtx struct {
	prop      *PropDef
	tier      string
	seed      int64
	w         *World
	kf        *KnownFindings
	harnesses []HarnessDef
	outDir    string
	replayDir string
	lines     []string // VIOLATION / KNOWN-FINDING lines
	violations int
}

func cmdCheck(args []string) {
	if len(args) < 1 {
		fmt.Fprintln(os.Stderr, "usage: govc check <Cxx> [--tier quick|thorough]")
		os.Exit(2)
	}
	id := args[0]
	fs := flag.NewFlagSet("check", flag.ExitOnError)
	tier := fs.String("tier", "", "quick or thorough")
	evdir := fs.String("evidence-dir", "", "write evidence here instead of /verif/evidence (self-test)")
	fs.Parse(args[1:])
	if *evdir != "" {
		evidenceDir = *evdir
	}
	if *tier == "" {
		*tier = os.Getenv("VERIF_TIER")
	}
	if *tier == "" {
		*tier = "quick"
	}
	seed := int64(1)
	if s := os.Getenv("VERIF_SEED"); s != "" {
		if v, err := strconv.ParseInt(s, 10, 64); err == nil {
			seed = v
		}
	}
	registerProps()
	p := props[id]
	if p == nil {
		fmt.Fprintln(os.Stderr, "unknown or unclaimed property", id)
		os.Exit(2)
	}
	os.Exit(runCheck(p, *tier, seed))
}

func runCheck(p *PropDef, tier string, seed int64) int {
	t0 := time.Now()
	cc := &checkCtx{prop: p, tier: tier, seed: seed, kf: loadKnown(), harnesses: loadHarnesses(),
		outDir: filepath.Join(verifDir, "out", p.ID), replayDir: filepath.Join(verifDir, "replays", p.ID)}
	os.RemoveAll(cc.outDir)
	os.MkdirAll(cc.outDir, 0o755)
	os.MkdirAll(cc.replayDir, 0o755)
	if evidenceDir == "" {
		evidenceDir = filepath.Join(verifDir, "evidence")
	} else {
		// self-test runs must not disturb the real outputs
		cc.outDir = filepath.Join(evidenceDir, "out", p.ID)
		cc.replayDir = filepath.Join(evidenceDir, "replays", p.ID)
		os.MkdirAll(cc.outDir, 0o755)
		os.MkdirAll(cc.replayDir, 0o755)
	}
	os.MkdirAll(evidenceDir, 0o755)
	w, err := loadWorld()
	if err != nil {
		// the tree does not load (does not compile): not a verdict about the property
		fmt.Fprintln(os.Stderr, "govc: cannot load /repo:", err)
		return 2
	}
	cc.w = w
	timeout := 10
	if tier == "thorough" {
		timeout = 60
	}
	opts := solveOpts{TimeoutS: timeout, All: tier == "thorough", OutDir: cc.outDir, Jobs: 5}

	// 1. functions under contract serving this property
	var results []*FuncResult
	var funcKeys []string
	demoted := map[string]string{} // function -> reason
	for path, cf := range w.Contracts {
		for _, key := range cf.Order {
			fc := cf.Funcs[key]
			serves := false
			for _, pid := range fc.Props {
				if pid == p.ID {
					serves = true
				}
			}
			if !serves {
				continue
			}
			full := path + "." + key
			funcKeys = append(funcKeys, full)
		}
	}
	sort.Strings(funcKeys)
	for _, full := range funcKeys {
		if i := strings.Index(full, "$lit"); i >= 0 {
			// contract of a function literal: <function key>$lit<k>
			parent := w.Funcs[full[:i]]
			k, _ := strconv.Atoi(full[i+4:])
			if parent == nil {
				demoted[full] = "function named by the contract no longer exists"
				continue
			}
			li, fl := litInfo(w, parent, k)
			if li == nil || li.Contract == nil {
				demoted[full] = "function literal named by the contract no longer exists"
				continue
			}
			res := genLit(w, li, fl)
			if res.Err != "" {
				demoted[full] = res.Err
				continue
			}
			results = append(results, res)
			continue
		}
		fi := w.Funcs[full]
		if fi == nil {
			demoted[full] = "function named by the contract no longer exists"
			continue
		}
		if fi.Contract.Trusted {
			continue
		}
		res := genFunc(w, fi, "full")
		if res.Err != "" {
			demoted[full] = res.Err
			continue
		}
		results = append(results, res)
	}
	var all []*Obligation
	for _, r := range results {
		for _, o := range r.Obls {
			if o.Kind == "safe" && r.FI.Contract != nil && r.FI.Contract.NoSafety {
				continue // not claimed here: these sites are swept (and listed when unproved) under C18
			}
			all = append(all, o)
		}
	}
	// assumed (trusted) contracts of called functions are only valid for the code they were written for
	stale := map[string]bool{}
	for _, r := range results {
		for _, ck := range r.Called {
			cfi := w.Funcs[ck]
			if cfi == nil || cfi.Contract == nil || !cfi.Contract.Trusted || stale[ck] {
				continue
			}
			if pin := funcPin(w, cfi); cfi.Contract.Pin != pin {
				stale[ck] = true
				all = append(all, presetObligation(ck+"#trusted:stale", ck, w.pos(cfi.Decl.Pos()),
					fmt.Sprintf("the assumed contract of %s was written for another version of the function (pin %s, now %s): it is no longer known to hold", shortName(ck), cfi.Contract.Pin, pin), "stale-assumption"))
			}
		}
	}
	// 1b. the regular expressions whose meaning the contracts of this property assume
	rxObls, rxNotes := regexPinObligations(p, w)
	all = append(all, rxObls...)
	regexNotes = rxNotes
	// 2. special obligation sources
	var extra *extraResult
	if p.Ordind {
		extra = ordindObligations(cc, w)
	}
	if p.ID == "C18" {
		extra = safetySweep(cc, w)
	}
	if p.Locks {
		extra = goCaptureObligations(cc, w)
	}
	if extra != nil {
		all = append(all, extra.Obls...)
	}
	for _, o := range all {
		if o.ExpectSat {
			continue
		}
	}
	// covers get a short timeout: 'unknown' is fine for them
	var covers, real []*Obligation
	for _, o := range all {
		if o.ExpectSat {
			covers = append(covers, o)
		} else {
			real = append(real, o)
		}
	}
	solveRobust(real, opts)
	// covers only have to NOT be unsat; a contradiction shows up in a fraction of a second, so a short timeout
	// and more parallelism (each cover that is sat-or-unknown costs its full timeout)
	copts := opts
	copts.TimeoutS = 1
	if tier == "thorough" {
		copts.TimeoutS = 4
	}
	copts.All = false
	copts.Jobs = 10
	solveAll(covers, copts)

	// 3. classify
	discharged := 0
	byBackend := map[string]int{}
	solverTime := 0.0
	type failRec struct {
		o  *Obligation
		fn string
	}
	var fails []*Obligation
	for _, o := range real {
		solverTime += o.TimeS
		if o.Result == "unsat" {
			discharged++
			byBackend[o.Solver]++
		} else {
			fails = append(fails, o)
		}
	}
	// 2b. vacuity probe (thorough tier, or GOVC_VACUITY=1): a discharged obligation whose negation is
	// discharged too means the assumptions at that point are contradictory — every proof there is void
	if tier == "thorough" || os.Getenv("GOVC_VACUITY") != "" {
		var probes []*Obligation
		back := map[*Obligation]*Obligation{}
		deadExit := map[string]bool{} // exits proved unreachable (legitimate dead code such as defensive returns)
		for _, o := range covers {
			if o.Result == "unsat" {
				if i := strings.Index(o.Name, "#cover:"); i >= 0 {
					deadExit[o.Func+"@"+o.Name[i+len("#cover:"):]] = true
				}
			}
		}
		for _, o := range real {
			if i := strings.LastIndex(o.Name, "@"); i >= 0 && deadExit[o.Func+o.Name[i:]] {
				continue
			}
			if o.Result != "unsat" || o.Preset || o.Goal == "true" || (o.Kind != "post" && o.Kind != "inv" && o.Kind != "ordind") {
				continue
			}
			p := *o
			p.Name = o.Name + "$neg"
			p.Goal = mkNot(o.Goal)
			p.Result, p.Solver, p.AllOut = "", "", nil
			pp := &p
			probes = append(probes, pp)
			back[pp] = o
		}
		popts := opts
		popts.TimeoutS = 3
		popts.All = false
		solveAll(probes, popts)
		for _, pp := range probes {
			if pp.Result == "unsat" {
				fmt.Fprintf(os.Stderr, "govc: CONTRADICTORY ASSUMPTIONS at %s: the obligation and its negation are both discharged [%s] %s\n", back[pp].Name, back[pp].Pos, back[pp].Text)
				return 2
			}
		}
		vacuityProbes = len(probes)
	}

	// vacuity: a function is vacuous when its entry is unreachable (contradictory requires / axioms)
	// or when every one of its exits is (an inconsistent assumption inside the body). A single
	// unreachable exit is legitimate (defensive code).
	vacuous := 0
	type covAgg struct {
		entryUnsat bool
		exits, exitsUnsat int
		first *Obligation
	}
	agg := map[string]*covAgg{}
	for _, o := range covers {
		a := agg[o.Func]
		if a == nil {
			a = &covAgg{first: o}
			agg[o.Func] = a
		}
		if strings.HasSuffix(o.Name, "#cover:entry") {
			a.entryUnsat = o.Result == "unsat"
			a.first = o
		} else {
			a.exits++
			if o.Result == "unsat" {
				a.exitsUnsat++
			}
		}
	}
	for _, a := range agg {
		if a.entryUnsat || (a.exits > 0 && a.exits == a.exitsUnsat) {
			vacuous++
			a.first.Text = "vacuity: precondition/axioms unsatisfiable or no exit reachable"
			fails = append(fails, a.first)
		}
	}
	harnessRuns := map[string]*HarnessRun{}
	harnessByTest := map[string]*HarnessRun{}
	harnessFor := func(fn string) *HarnessRun {
		if hr, ok := harnessRuns[fn]; ok {
			return hr
		}
		serves := func(h HarnessDef) bool {
			for _, pid := range h.Props {
				if pid == p.ID {
					return true
				}
			}
			return false
		}
		for _, h := range cc.harnesses {
			if h.Func == fn && serves(h) {
				if hr, ok := harnessByTest[h.Test]; ok {
					harnessRuns[fn] = hr
					return hr
				}
				hr := runHarness(h, tier, seed, "")
				harnessByTest[h.Test] = &hr
				harnessRuns[fn] = &hr
				return &hr
			}
		}
		// a property-wide harness ("*") stands in for every function of that property
		for _, h := range cc.harnesses {
			if h.Func != "*" {
				continue
			}
			for _, pid := range h.Props {
				if pid == p.ID {
					if hr, ok := harnessRuns["*"]; ok {
						harnessRuns[fn] = hr
						return hr
					}
					hr := runHarness(h, tier, seed, "")
					harnessRuns["*"] = &hr
					harnessRuns[fn] = &hr
					return &hr
				}
			}
		}
		harnessRuns[fn] = nil
		return nil
	}
	knownPrinted := map[string]bool{}
	reportedHarness := map[string]bool{}
	for _, o := range fails {
		if o.Result == "disagree" {
			fmt.Fprintf(os.Stderr, "govc: solvers disagree on %s\n", o.Name)
			return 2
		}
		if f := cc.kf.match(p.ID, o.Name); f != nil {
			if !knownPrinted[f.Obligation] {
				knownPrinted[f.Obligation] = true
				fmt.Printf("KNOWN-FINDING: property=%s %s (%s)\n", p.ID, f.What, f.Obligation)
			}
			continue
		}
		cc.reportViolation(o, harnessFor(o.Func))
	}
	// 4. demoted functions: bounded runtime check stands in (never counted as proved)
	var boundedNotes []string
	for fn, why := range demoted {
		hr := harnessFor(fn)
		if hr == nil {
			// no stand-in available: the contract cannot be checked any more -> report
			o := &Obligation{Name: fn + "#shape", Func: fn, Text: why, Result: "not-generated"}
			cc.reportViolation(o, nil)
			continue
		}
		if hr.BuildErr {
			o := &Obligation{Name: fn + "#shape", Func: fn, Text: why + "; bounded stand-in does not build", Result: "not-generated"}
			cc.reportViolation(o, hr)
			continue
		}
		if hr.Failed {
			o := &Obligation{Name: fn + "#bounded", Func: fn, Text: why, Result: "bounded-check-failed"}
			cc.reportViolation(o, hr)
			continue
		}
		boundedNotes = append(boundedNotes, fmt.Sprintf("%s: verification conditions not generated (%s); bounded stand-in %s passed on %d cases (scope: %s) — NOT a proof", shortName(fn), why, hr.Def.Test, hr.Cases, hr.Def.Scope))
	}
	// every tier: bounded checks of the functions on the property's path that are not under contract;
	// thorough tier: also run every bounded stand-in as a cross-check of the contracts
	{
		for _, h := range cc.harnesses {
			if tier != "thorough" && !h.Always {
				continue
			}
			serves := false
			for _, pid := range h.Props {
				if pid == p.ID {
					serves = true
				}
			}
			if !serves {
				continue
			}
			hr := harnessFor(h.Func)
			if hr != nil && hr.Failed && !reportedHarness[h.Test] {
				reportedHarness[h.Test] = true
				// every failing input is either a recorded finding (matched by its witness) or a violation
				unknown := false
				lines := hr.FailLines
				if len(lines) == 0 {
					lines = []string{hr.FailLine}
				}
				for _, fl := range lines {
					if f := cc.kf.matchWitness(p.ID, h.Func+"#bounded", fl); f != nil {
						if !knownPrinted[f.Witness] {
							knownPrinted[f.Witness] = true
							fmt.Printf("KNOWN-FINDING: property=%s %s\n", p.ID, f.What)
						}
						continue
					}
					if !unknown {
						hr.FailLine = fl
					}
					unknown = true
				}
				if unknown {
					o := &Obligation{Name: h.Func + "#bounded", Func: h.Func, Text: "bounded cross-check of the executable contract", Result: "bounded-check-failed"}
					cc.reportViolation(o, hr)
				}
			}
		}
	}
	if tier == "thorough" {
		for _, lf := range p.Lemmas {
			if msg, ok := checkLean(lf); !ok {
				fmt.Fprintf(os.Stderr, "govc: lemma %s does not check: %s\n", lf, msg)
				return 2
			}
		}
	}

	// 5. evidence
	ev := cc.buildEvidence(results, real, covers, discharged, byBackend, solverTime, demoted, boundedNotes, harnessRuns, extra, vacuous)
	ev.WallS = time.Since(t0).Seconds()
	ev.Violations = cc.violations
	data, _ := json.MarshalIndent(ev, "", " ")
	os.WriteFile(filepath.Join(evidenceDir, p.ID+".json"), data, 0o644)
	fmt.Printf("govc: %s tier=%s functions=%d obligations=%d discharged=%d known=%d violations=%d wall=%.1fs\n",
		p.ID, tier, len(results), len(real), discharged, len(knownPrinted), cc.violations, ev.WallS)
	if cc.violations > 0 {
		return 1
	}
	return 0
}

type replayFile struct {
	Property   string            `json:"property"`
	Obligation string            `json:"obligation"`
	Function   string            `json:"function"`
	Position   string            `json:"position"`
	Clause     string            `json:"clause"`
	Result     string            `json:"result"`
	Solvers    map[string]string `json:"solver_outputs,omitempty"`
	Model      string            `json:"model,omitempty"`
	SMTFile    string            `json:"smt_file,omitempty"`
	Harness    *HarnessDef       `json:"harness,omitempty"`
	FailInput  string            `json:"failing_input,omitempty"`
	HarnessOut string            `json:"harness_output,omitempty"`
	ReplayCmd  string            `json:"replay_cmd"`
	Found      bool              `json:"failing_input_found"`
}

func (cc *checkCtx) reportViolation(o *Obligation, hr *HarnessRun) {
	cc.violations++
	rf := replayFile{Property: cc.prop.ID, Obligation: o.Name, Function: o.Func, Position: o.Pos, Clause: o.Text,
		Result: o.Result, Solvers: o.AllOut, Model: truncate(o.Model, 20000)}
	if o.Kind != "" {
		rf.SMTFile = filepath.Join(cc.outDir, sanitizeFile(o.Name)+".smt2")
	}
	fn := filepath.Join(cc.replayDir, sanitizeFile(o.Name)+".json")
	rf.ReplayCmd = "./bin/govc replay " + fn
	suffix := " no-failing-input-found"
	if hr != nil {
		rf.Harness = &hr.Def
		rf.HarnessOut = truncate(hr.Output, 8000)
		if hr.Failed {
			rf.Found = true
			rf.FailInput = hr.FailLine
			suffix = ""
		}
	}
	data, _ := json.MarshalIndent(rf, "", " ")
	os.WriteFile(fn, data, 0o644)
	fmt.Printf("govc: obligation %s %s [%s] %s\n", shortName(o.Name), o.Result, o.Pos, o.Text)
	if rf.Found {
		fmt.Printf("govc:   failing input on the real code: %s\n", rf.FailInput)
	}
	fmt.Printf("VIOLATION property=%s replay=%s%s\n", cc.prop.ID, fn, suffix)
}

func (cc *checkCtx) buildEvidence(results []*FuncResult, real, covers []*Obligation, discharged int, byBackend map[string]int,
	solverTime float64, demoted map[string]string, boundedNotes []string, harnessRuns map[string]*HarnessRun, extra *extraResult, vacuous int) *Evidence {
	p := cc.prop
	ev := &Evidence{PropertyID: p.ID, Tier: cc.tier, Seed: cc.seed, Level: "proof", Coverage: map[string]interface{}{}}
	var fnames, termNot, abstracted []string
	externs := map[string]bool{}
	unknown := map[string]bool{}
	for _, r := range results {
		fnames = append(fnames, shortName(r.FI.FullKey()))
		if r.TermNotProved {
			termNot = append(termNot, shortName(r.FI.FullKey()))
		}
		if r.Abstracted {
			abstracted = append(abstracted, shortName(r.FI.FullKey())+": "+strings.Join(r.Unsupported, "; "))
		}
		for _, e := range r.UsedExterns {
			externs[e] = true
		}
		for _, e := range r.Unknown {
			unknown[e] = true
		}
	}
	if extra != nil {
		fnames = append(fnames, extra.Funcs...)
		for _, e := range extra.Externs {
			externs[e] = true
		}
	}
	sort.Strings(fnames)
	var samples []interface{}
	sorted := append([]*Obligation(nil), real...)
	sort.Slice(sorted, func(i, j int) bool { return sorted[i].TimeS > sorted[j].TimeS })
	var slowest []interface{}
	for i, o := range sorted {
		if i >= 5 {
			break
		}
		slowest = append(slowest, map[string]interface{}{"obligation": shortName(o.Name), "time_s": round3(o.TimeS), "solver": o.Solver, "result": o.Result})
	}
	for i, o := range real {
		if i%maxInt(1, len(real)/12) == 0 && len(samples) < 14 {
			samples = append(samples, map[string]interface{}{"obligation": shortName(o.Name), "clause": o.Text, "at": o.Pos, "vc_bytes": o.Bytes, "solver": o.Solver, "result": o.Result, "time_s": round3(o.TimeS)})
		}
	}
	cov := ev.Coverage
	cov["obligations"] = len(real)
	cov["discharged"] = discharged
	cov["checker_cmd"] = fmt.Sprintf("./bin/govc check %s --tier %s  (VC generation from /repo working tree, -tags verif; solvers: z3-new 5.1.0 | z3 4.8.12 | cvc5 1.0.x raced per obligation)", p.ID, cc.tier)
	cov["functions_under_contract"] = fnames
	cov["by_backend"] = byBackend
	cov["solver_time_s"] = round3(solverTime)
	cov["slowest"] = slowest
	cov["samples"] = samples
	cov["cover_checks"] = map[string]interface{}{"count": len(covers), "vacuous": vacuous, "rule": "for every function entry and every exit: (requires ∧ axioms ∧ path) must not be UNSAT",
		"negation_probes": vacuityProbes, "negation_rule": "thorough tier: for every discharged post/invariant obligation its negation must NOT be dischargeable (both provable = contradictory assumptions)"}
	cov["termination_not_proved"] = termNot
	cov["abstracted_functions"] = abstracted
	if extra != nil {
		for k, v := range extra.Coverage {
			cov[k] = v
		}
	}
	var bounded []interface{}
	for fn, hr := range harnessRuns {
		if hr == nil {
			continue
		}
		bounded = append(bounded, map[string]interface{}{"function": shortName(fn), "harness": hr.Def.Test, "scope": hr.Def.Scope, "cases": hr.Cases, "failed": hr.Failed, "wall_s": round3(hr.WallS),
			"role": "bounded stand-in / counterexample search; never counted as proved"})
	}
	cov["bounded"] = bounded
	if len(demoted) > 0 {
		var d []string
		for fn, why := range demoted {
			d = append(d, shortName(fn)+": "+why)
		}
		sort.Strings(d)
		cov["demoted"] = d
		ev.Level = "other"
		cov["explanation"] = "some functions could not be brought under the VC generator on this tree (shape change); their bounded stand-ins ran instead: " + strings.Join(boundedNotes, " | ")
	}
	tb := []string{
		"govc itself: Go→guarded-command translation, symbolic execution / WP calculus, SMT encodings (DESIGN §1, §7)",
		"SMT solvers z3 4.8.12 / z3 5.1.0 / cvc5 1.0 (an 'unsat' from any one is accepted; thorough tier cross-checks all three)",
	}
	for e := range externs {
		tb = append(tb, "assumed extern contract: "+e)
	}
	for e := range unknown {
		tb = append(tb, "havocked call (sound over-approximation): "+e)
	}
	tb = append(tb, p.Trusted...)
	sort.Strings(tb[2:])
	cov["trusted_base"] = tb
	ev.Assumptions = []string{
		"integers are mathematical (machine arithmetic treated as mathematical; narrowing conversions modelled as wrap-to-unknown)",
		"strings are byte arrays with an uninterpreted strict total order for '<'",
		"slices: reference + length with contents in a heap; re-slicing a slice copies (aliasing through sub-slices not modelled); capacity not modelled",
		"explicit panic(...) is a diagnostic exit; log.* / fmt.Print* are no-ops",
		"calls without contract or spec havoc all heaps and return arbitrary values",
		"stack depth and memory exhaustion are not modelled; termination only where a decreases clause is discharged",
	}
	if p.Undecided != "" {
		ev.Assumptions = append(ev.Assumptions, "NOT DECIDED by this check: "+p.Undecided)
	}
	if extra != nil {
		ev.Assumptions = append(ev.Assumptions, extra.Assumptions...)
	}
	ev.Assumptions = append(ev.Assumptions, regexNotes...)
	return ev
}

func round3(f float64) float64 { return float64(int(f*1000+0.5)) / 1000 }
func maxInt(a, b int) int {
	if a > b {
		return a
	}
	return b
}

type extraResult struct {
	Obls        []*Obligation
	Funcs       []string
	Externs     []string
	Coverage    map[string]interface{}
	Assumptions []string
}

func checkLean(file string) (string, bool) {
	cmd := exec.Command("lean", filepath.Join(verifDir, "lemmas", file))
	out, err := cmd.CombinedOutput()
	if err != nil || strings.Contains(string(out), "error") || strings.Contains(string(out), "sorry") {
		return string(out), false
	}
	return "", true
}

// ---- replay

func cmdReplay(args []string) {
	if len(args) < 1 {
		fmt.Fprintln(os.Stderr, "usage: govc replay <file>")
		os.Exit(2)
	}
	data, err := os.ReadFile(args[0])
	if err != nil {
		fmt.Fprintln(os.Stderr, err)
		os.Exit(2)
	}
	var rf replayFile
	if err := json.Unmarshal(data, &rf); err != nil {
		fmt.Fprintln(os.Stderr, err)
		os.Exit(2)
	}
	fmt.Printf("obligation: %s\nclause: %s\nat: %s\nresult: %s\n", rf.Obligation, rf.Clause, rf.Position, rf.Result)
	if rf.Harness == nil || !rf.Found {
		fmt.Println("no failing input was found for this obligation; solver outputs:")
		for s, o := range rf.Solvers {
			fmt.Printf("  %s: %s\n", s, strings.SplitN(o, "\n", 2)[0])
		}
		os.Exit(1)
	}
	hr := runHarness(*rf.Harness, "quick", 1, rf.FailInput)
	fmt.Println(hr.Output)
	if hr.Failed {
		fmt.Printf("replayed: the real code violates the contract on input %s\n", rf.FailInput)
		os.Exit(1)
	}
	fmt.Println("the input no longer fails")
	os.Exit(0)
}
