package main

import (
	"flag"
	"fmt"
	"os"
	"sort"
	"strings"
	"time"
)

func main() {
	if len(os.Args) < 2 {
		fmt.Fprintln(os.Stderr, "usage: govc <vc|check|list|selftest|replay> ...")
		os.Exit(2)
	}
	if d := os.Getenv("GOVC_REPO"); d != "" {
		repoDir = d
	}
	if d := os.Getenv("GOVC_VERIF"); d != "" {
		verifDir = d
	}
	switch os.Args[1] {
	case "vc":
		cmdVC(os.Args[2:])
	case "pins":
		// prints the pins of the functions holding argued sources
		w, err := loadWorld()
		if err != nil {
			panic(err)
		}
		for k, fi := range w.Funcs {
			if fi.Contract != nil && fi.Contract.Trusted {
				fmt.Printf("trusted %s %s\n", shortName(k), funcPin(w, fi))
			}
		}
		for _, e := range loadOrdindTable() {
			if e.Rule == "argued" {
				for k, fi := range w.Funcs {
					if shortName(k) == e.Func {
						fmt.Printf("%s %s\n", e.Func, funcPin(w, fi))
					}
				}
			}
		}
	case "sweep":
		cmdSweep(os.Args[2:])
	case "sources":
		cmdSources()
	case "check":
		cmdCheck(os.Args[2:])
	case "replay":
		cmdReplay(os.Args[2:])
	default:
		fmt.Fprintln(os.Stderr, "unknown command", os.Args[1])
		os.Exit(2)
	}
}

// govc vc [-mode full|safety] [-t secs] [-v] <func key substring>...
func cmdVC(args []string) {
	fs := flag.NewFlagSet("vc", flag.ExitOnError)
	mode := fs.String("mode", "full", "full or safety")
	tmo := fs.Int("t", 10, "solver timeout (s)")
	verbose := fs.Bool("v", false, "verbose")
	keep := fs.Bool("keep", false, "keep all smt files")
	fs.Parse(args)
	t0 := time.Now()
	w, err := loadWorld()
	if err != nil {
		fmt.Fprintln(os.Stderr, "load:", err)
		os.Exit(2)
	}
	fmt.Printf("loaded in %.1fs\n", time.Since(t0).Seconds())
	var keys []string
	for _, k := range w.sortedFuncKeys() {
		for _, pat := range fs.Args() {
			if strings.HasSuffix(k, pat) || k == pat {
				keys = append(keys, k)
			}
		}
	}
	for _, pat := range fs.Args() {
		if i := strings.Index(pat, "$lit"); i >= 0 {
			for _, k := range w.sortedFuncKeys() {
				if strings.HasSuffix(k, pat[:i]) {
					keys = append(keys, k+pat[i:])
				}
			}
		}
	}
	sort.Strings(keys)
	for _, k := range keys {
		var res *FuncResult
		if i := strings.Index(k, "$lit"); i >= 0 {
			n := 0
			fmt.Sscanf(k[i+4:], "%d", &n)
			li, fl := litInfo(w, w.Funcs[k[:i]], n)
			if li == nil {
				fmt.Println("no such literal", k)
				continue
			}
			res = genLit(w, li, fl)
		} else {
			res = genFunc(w, w.Funcs[k], *mode)
		}
		fmt.Printf("== %s  (%d obligations, abstracted=%v)\n", shortName(k), len(res.Obls), res.Abstracted)
		if res.Err != "" {
			fmt.Println("   ERROR:", res.Err)
			continue
		}
		for _, u := range res.Unsupported {
			fmt.Println("   out-of-subset:", u)
		}
		for _, u := range res.Unknown {
			fmt.Println("   unknown call:", u)
		}
		opts := solveOpts{TimeoutS: *tmo, OutDir: verifDir + "/out/vc", Jobs: 5}
		_ = keep
		solveAll(res.Obls, opts)
		for _, o := range res.Obls {
			mark := "ok  "
			if !o.ok() {
				mark = "FAIL"
			}
			if *verbose || !o.ok() {
				fmt.Printf("   %s %-50s %-8s %-7s %.2fs %dB  [%s] %s\n", mark, strings.TrimPrefix(o.Name, k), o.Result, o.Solver, o.TimeS, o.Bytes, o.Pos, o.Text)
			}
		}
		n, okc := 0, 0
		for _, o := range res.Obls {
			n++
			if o.ok() {
				okc++
			}
		}
		fmt.Printf("   %d/%d ok\n", okc, n)
	}
}
