package main

import (
	"fmt"
	"go/token"
	"go/types"
	"strings"
)

type specErr string

func specFail(format string, a ...interface{}) { panic(specErr(fmt.Sprintf(format, a...))) }

type SpecScope struct {
	fv       *FuncVC
	st       *State
	old      *State
	bound    map[string]Val
	own      bool // identifiers may resolve to the verified function's variables
	pkg      *types.Package
	pos      token.Pos
	cf       *ContractFile
	noHeap   bool
	inOld    bool
	post     bool
	boundSet map[string]bool // names that are quantifier-bound (for trigger inference)
	loopPre  *State          // state on entry of the enclosing loop (before(e))
	loopHead *State          // state at the head of the current iteration (athead(e))
}

func (fv *FuncVC) specScope(st *State, old *State, post bool) *SpecScope {
	return &SpecScope{fv: fv, st: st, old: old, bound: map[string]Val{}, own: true, pkg: fv.fi.Pkg.Types, pos: fv.fi.Decl.Body.Lbrace,
		cf: fv.fi.CF, post: post}
}

func (fv *FuncVC) calleeScope(fi *FuncInfo, st *State, pre *State, bind, res map[string]Val) *SpecScope {
	b := map[string]Val{}
	for k, v := range bind {
		b[k] = v
	}
	for k, v := range res {
		b[k] = v
	}
	return &SpecScope{fv: fv, st: st, old: pre, bound: b, own: false, pkg: fi.Pkg.Types, pos: fi.Decl.Pos(), cf: fi.CF, post: res != nil}
}

func (fv *FuncVC) externScope(st *State, pre *State, bind, res map[string]Val) *SpecScope {
	b := map[string]Val{}
	for k, v := range bind {
		b[k] = v
	}
	for k, v := range res {
		b[k] = v
	}
	return &SpecScope{fv: fv, st: st, old: pre, bound: b, own: false, pkg: fv.fi.Pkg.Types, pos: token.NoPos, post: res != nil}
}

func (sc *SpecScope) child() *SpecScope {
	n := *sc
	n.bound = map[string]Val{}
	for k, v := range sc.bound {
		n.bound[k] = v
	}
	return &n
}

func (fv *FuncVC) specBool(n SNode, sc *SpecScope) string {
	v := fv.specEval(n, sc)
	if v.S != SBoolS {
		specFail("expected a boolean: %s", n.String())
	}
	return v.T
}

// parseSpecType resolves a type text to (sort, Go type).
func (sc *SpecScope) parseSpecType(text string) (Sort, types.Type) {
	fv := sc.fv
	text = strings.TrimSpace(text)
	if strings.HasPrefix(text, "seq[") && strings.HasSuffix(text, "]") {
		es, et := sc.parseSpecType(text[4 : len(text)-1])
		return arraySort(SInt, es), types.NewMap(types.Typ[types.Int], et)
	}
	if strings.HasPrefix(text, "set[") && strings.HasSuffix(text, "]") {
		es, et := sc.parseSpecType(text[4 : len(text)-1])
		return arraySort(es, SBoolS), types.NewMap(et, types.Typ[types.Bool])
	}
	if text == "Ref" {
		return SRef, nil
	}
	cands := []*types.Package{sc.pkg}
	for _, p := range []string{repoModule + "/analysis", repoModule + "/generator", repoModule + "/analysis/sql", repoModule + "/generator/go/sqlcrud"} {
		if pk, ok := fv.w.Pkgs[p]; ok && pk.Types != sc.pkg {
			cands = append(cands, pk.Types)
		}
	}
	var lastErr error
	for _, p := range cands {
		tv, err := types.Eval(fv.w.Fset, p, token.NoPos, text)
		if err == nil && tv.IsType() {
			return fv.th.sortOf(tv.Type), tv.Type
		}
		// imported package names are file-scoped: try at a position inside a file of p
		if pk := fv.w.Pkgs[p.Path()]; pk != nil {
			for _, f := range pk.Syntax {
				tv, err = types.Eval(fv.w.Fset, p, f.End()-1, text)
				if err == nil && tv.IsType() {
					return fv.th.sortOf(tv.Type), tv.Type
				}
				if err != nil {
					lastErr = err
				}
			}
		}
	}
	specFail("cannot resolve type %q: %v", text, lastErr)
	return "", nil
}

func isArraySort(s Sort) bool { return strings.HasPrefix(string(s), "(Array ") }

func (sc *SpecScope) heap(name string) string {
	if sc.noHeap {
		specFail("heap access (%s) in a heap-independent definition", name)
	}
	return sc.fv.getHeap(sc.st, name)
}

func (fv *FuncVC) specEval(n SNode, sc *SpecScope) Val {
	th := fv.th
	switch x := n.(type) {
	case *SIntLit:
		return Val{intLitStr(x.V), SInt, types.Typ[types.Int]}
	case *SStrLit:
		return Val{th.strLit(x.V), SStr, types.Typ[types.String]}
	case *SBool:
		if x.V {
			return Val{"true", SBoolS, types.Typ[types.Bool]}
		}
		return Val{"false", SBoolS, types.Typ[types.Bool]}
	case *SIdent:
		return sc.lookup(x.Name)
	case *SUnary:
		v := fv.specEval(x.X, sc)
		if x.Op == "!" {
			return Val{mkNot(v.T), SBoolS, v.GoT}
		}
		return Val{sx("-", v.T), v.S, v.GoT}
	case *SBinary:
		return fv.specBinary(x, sc)
	case *SQuant:
		c := sc.child()
		var binders []string
		for vi, name := range x.Vars {
			s, gt := sc.parseSpecType(x.Types[vi])
			bn := th.freshName(name)
			bn = strings.ReplaceAll(bn, "!", "?")
			c.bound[name] = Val{bn, s, gt}
			binders = append(binders, fmt.Sprintf("(%s %s)", bn, s))
		}
		body := fv.specBool(x.Body, c)
		if len(x.Trig) > 0 {
			var ts []string
			for _, t := range x.Trig {
				ts = append(ts, fv.specEval(t, c).T)
			}
			body = fmt.Sprintf("(! %s :pattern (%s))", body, strings.Join(ts, " "))
		}
		q := "forall"
		if !x.Forall {
			q = "exists"
		}
		return Val{fmt.Sprintf("(%s (%s) %s)", q, strings.Join(binders, " "), body), SBoolS, types.Typ[types.Bool]}
	case *SOld:
		if sc.old == nil {
			specFail("old() not available here")
		}
		c := sc.child()
		c.st = sc.old
		c.inOld = true
		return fv.specEval(x.X, c)
	case *SIndex:
		base := fv.specEval(x.X, sc)
		idx := fv.specEval(x.I, sc)
		return fv.specIndex(base, idx, sc)
	case *SSliceX:
		base := fv.specEval(x.X, sc)
		if base.S == SStr {
			lo, hi := "0", sx("slen", base.T)
			if x.Lo != nil {
				lo = fv.specEval(x.Lo, sc).T
			}
			if x.Hi != nil {
				hi = fv.specEval(x.Hi, sc).T
			}
			return Val{sx("sub", base.T, lo, hi), SStr, base.GoT}
		}
		specFail("slice expression on %s", base.S)
	case *SSelect:
		return fv.specSelect(x, sc)
	case *SCall:
		return fv.specCall(x, sc)
	case *SIs:
		v := fv.specEval(x.X, sc)
		_, T := sc.parseSpecType(x.Type)
		c, _ := fv.typeTest(v, T, sc.st)
		return Val{c, SBoolS, types.Typ[types.Bool]}
	case *SAs:
		v := fv.specEval(x.X, sc)
		_, T := sc.parseSpecType(x.Type)
		_, out := fv.typeTest(v, T, sc.st)
		return out
	}
	specFail("unsupported spec node %T", n)
	return Val{}
}

func (sc *SpecScope) lookup(name string) Val {
	fv := sc.fv
	if v, ok := sc.bound[name]; ok {
		return v
	}
	if name == "nil" {
		return Val{"nil", SRef, types.Typ[types.UntypedNil]}
	}
	if sc.own {
		if v, ok := sc.st.ghosts[name]; ok {
			return v
		}
		if strings.HasPrefix(name, "result") && sc.post {
			idx := 0
			if name != "result" {
				fmt.Sscanf(name[6:], "%d", &idx)
				idx--
			}
			if idx >= 0 && idx < len(fv.resNames) {
				if v, ok := sc.st.vars[fv.resNames[idx]]; ok {
					return v
				}
			}
		}
		// program variable by name: the innermost (latest declared) live variable with that name
		var best types.Object
		for o := range sc.st.vars {
			if o.Name() == name {
				if best == nil || o.Pos() > best.Pos() {
					best = o
				}
			}
		}
		if best != nil {
			return sc.st.vars[best]
		}
	}
	// package-level object
	if sc.pkg != nil {
		if o := sc.pkg.Scope().Lookup(name); o != nil {
			switch oo := o.(type) {
			case *types.Const:
				if v, ok := fv.constVal(oo.Val(), oo.Type()); ok {
					return v
				}
			case *types.Var:
				return fv.globalVar(oo, sc.st)
			}
		}
	}
	specFail("unknown identifier %q", name)
	return Val{}
}

func (fv *FuncVC) specBinary(x *SBinary, sc *SpecScope) Val {
	bt := types.Typ[types.Bool]
	switch x.Op {
	case "&&":
		return Val{mkAnd(fv.specBool(x.X, sc), fv.specBool(x.Y, sc)), SBoolS, bt}
	case "||":
		return Val{mkOr(fv.specBool(x.X, sc), fv.specBool(x.Y, sc)), SBoolS, bt}
	case "==>":
		return Val{mkImp(fv.specBool(x.X, sc), fv.specBool(x.Y, sc)), SBoolS, bt}
	case "<==>":
		return Val{sx("=", fv.specBool(x.X, sc), fv.specBool(x.Y, sc)), SBoolS, bt}
	}
	a := fv.specEval(x.X, sc)
	b := fv.specEval(x.Y, sc)
	switch x.Op {
	case "==":
		return Val{fv.eqVals(a, b), SBoolS, bt}
	case "!=":
		return Val{mkNot(fv.eqVals(a, b)), SBoolS, bt}
	case "<", "<=", ">", ">=":
		if a.S == SStr {
			switch x.Op {
			case "<":
				return Val{sx("slt", a.T, b.T), SBoolS, bt}
			case ">":
				return Val{sx("slt", b.T, a.T), SBoolS, bt}
			case "<=":
				return Val{mkNot(sx("slt", b.T, a.T)), SBoolS, bt}
			default:
				return Val{mkNot(sx("slt", a.T, b.T)), SBoolS, bt}
			}
		}
		return Val{sx(x.Op, a.T, b.T), SBoolS, bt}
	case "+":
		if a.S == SStr {
			return Val{sx("cat", a.T, b.T), SStr, a.GoT}
		}
		return Val{sx("+", a.T, b.T), a.S, a.GoT}
	case "++":
		return Val{sx("cat", a.T, b.T), SStr, a.GoT}
	case "-", "*":
		return Val{sx(x.Op, a.T, b.T), a.S, a.GoT}
	case "/":
		return Val{sx("div", a.T, b.T), a.S, a.GoT}
	case "%":
		return Val{sx("mod", a.T, b.T), a.S, a.GoT}
	}
	specFail("operator %s", x.Op)
	return Val{}
}

func (fv *FuncVC) specIndex(base, idx Val, sc *SpecScope) Val {
	if base.S == SStr {
		return Val{sx("sat", base.T, idx.T), SInt, types.Typ[types.Byte]}
	}
	if isArraySort(base.S) {
		mt, _ := base.GoT.(*types.Map)
		var et types.Type
		var es Sort
		if mt != nil {
			et = mt.Elem()
			es = fv.th.sortOf(et)
		} else {
			specFail("index on array of unknown element type")
		}
		return Val{sx("select", base.T, idx.T), es, et}
	}
	if base.S == SSlice {
		et := elemType(base.GoT)
		if et == nil {
			specFail("index on slice of unknown type")
		}
		es := fv.th.sortOf(et)
		h := fv.declSliceHeapT(et)
		return Val{sx("select", sx("select", sc.heap(h), sx("sl_ref", base.T)), idx.T), es, et}
	}
	if base.S == SRef && base.GoT != nil {
		if mt, ok := types.Unalias(base.GoT).Underlying().(*types.Map); ok {
			ks, vs := fv.th.sortOf(mt.Key()), fv.th.sortOf(mt.Elem())
			d, vh, _ := fv.declMapHeaps(ks, vs)
			// reading a nil map yields the zero value, exactly as in the code translation
			has := mkAnd(mkNot(mkEq(base.T, "nil")), sx("select", sx("select", sc.heap(d), base.T), idx.T))
			return Val{mkIte(has, sx("select", sx("select", sc.heap(vh), base.T), idx.T), fv.th.zero(mt.Elem())), vs, mt.Elem()}
		}
	}
	specFail("cannot index %s", base.S)
	return Val{}
}

func (fv *FuncVC) specSelect(x *SSelect, sc *SpecScope) Val {
	// package-qualified constant: pkg.Name
	if id, ok := x.X.(*SIdent); ok {
		if _, bound := sc.bound[id.Name]; !bound {
			if v, ok := fv.qualified(id.Name, x.Sel, sc); ok {
				return v
			}
		}
	}
	base := fv.specEval(x.X, sc)
	if base.GoT == nil {
		specFail("selector %s on value without Go type", x.Sel)
	}
	obj, path, _ := types.LookupFieldOrMethod(base.GoT, true, sc.pkg, x.Sel)
	if obj == nil {
		// unexported field of another package
		obj, path, _ = lookupAnyField(base.GoT, x.Sel)
	}
	f, ok := obj.(*types.Var)
	if !ok || f == nil {
		specFail("no field %s in %s", x.Sel, base.GoT)
	}
	cur := base
	ct := base.GoT
	for _, idx := range path {
		ct = types.Unalias(ct)
		if p, ok := ct.Underlying().(*types.Pointer); ok {
			stt := p.Elem().Underlying().(*types.Struct)
			ss := fv.th.sortOf(p.Elem())
			fld := stt.Field(idx)
			fs := fv.th.sortOf(fld.Type())
			h := fv.declFieldHeap(ss, fld.Name(), fs)
			cur = Val{sx("select", sc.heap(h), cur.T), fs, fld.Type()}
			ct = fld.Type()
			continue
		}
		stt, ok := ct.Underlying().(*types.Struct)
		if !ok {
			specFail("selector through %s", ct)
		}
		ss := fv.th.sortOf(ct)
		fld := stt.Field(idx)
		cur = Val{sx(fv.th.fieldAcc(string(ss), fld.Name()), cur.T), fv.th.sortOf(fld.Type()), fld.Type()}
		ct = fld.Type()
	}
	return cur
}

func lookupAnyField(t types.Type, name string) (types.Object, []int, bool) {
	t = types.Unalias(t)
	if p, ok := t.Underlying().(*types.Pointer); ok {
		t = p.Elem()
	}
	st, ok := t.Underlying().(*types.Struct)
	if !ok {
		return nil, nil, false
	}
	for i := 0; i < st.NumFields(); i++ {
		if st.Field(i).Name() == name {
			return st.Field(i), []int{i}, false
		}
	}
	return nil, nil, false
}

// qualified resolves pkgname.Name for constants of imported packages.
func (fv *FuncVC) qualified(pkgName, name string, sc *SpecScope) (Val, bool) {
	var cands []*types.Package
	if ip := fv.importedAs(pkgName); ip != nil {
		cands = append(cands, ip)
	}
	for _, p := range fv.w.All {
		if p.Types != nil && p.Types.Name() == pkgName {
			cands = append(cands, p.Types)
		}
	}
	for _, pt := range cands {
		o := pt.Scope().Lookup(name)
		switch oo := o.(type) {
		case *types.Const:
			if v, ok := fv.constVal(oo.Val(), oo.Type()); ok {
				return v, true
			}
		case *types.Var:
			return fv.globalVar(oo, sc.st), true
		}
	}
	return Val{}, false
}

func (fv *FuncVC) findPred(name string, sc *SpecScope) *PredDef {
	if sc.cf != nil {
		if p, ok := sc.cf.Preds[name]; ok {
			return p
		}
	}
	if fv.fi.CF != nil {
		if p, ok := fv.fi.CF.Preds[name]; ok {
			return p
		}
	}
	if p, ok := fv.w.Externs.Preds[name]; ok {
		return p
	}
	// predicates of other contract files (shared helpers)
	for _, k := range sortedKeys(fv.w.Contracts) {
		if p, ok := fv.w.Contracts[k].Preds[name]; ok {
			return p
		}
	}
	return nil
}

func (fv *FuncVC) specCall(x *SCall, sc *SpecScope) Val {
	th := fv.th
	bt := types.Typ[types.Bool]
	it := types.Typ[types.Int]
	if id, ok := x.Fun.(*SIdent); ok {
		args := func() []Val {
			var out []Val
			for _, a := range x.Args {
				out = append(out, fv.specEval(a, sc))
			}
			return out
		}
		switch id.Name {
		case "len":
			a := args()[0]
			switch {
			case a.S == SStr:
				return Val{sx("slen", a.T), SInt, it}
			case a.S == SSlice:
				return Val{sx("sl_len", a.T), SInt, it}
			case a.S == SRef && a.GoT != nil:
				if mt, ok := types.Unalias(a.GoT).Underlying().(*types.Map); ok {
					ks, vs := th.sortOf(mt.Key()), th.sortOf(mt.Elem())
					d, _, c := fv.declMapHeaps(ks, vs)
					return Val{mkIte(mkEq(a.T, "nil"), "0", sx(c, sx("select", sc.heap(d), a.T))), SInt, it}
				}
			}
			specFail("len of %s", a.S)
		case "has":
			// has(old(m), k) reads the CURRENT domain through the old value of m: for a variable that is not assigned it
			// is the same as has(m, k), and a "nothing is removed" clause written that way is a tautology. Refused.
			if len(x.Args) == 2 {
				if inner, ok := x.Args[0].(*SCall); ok && len(inner.Args) == 1 {
					if fn, ok := inner.Fun.(*SIdent); ok && (fn.Name == "old" || fn.Name == "before") {
						if _, isId := inner.Args[0].(*SIdent); isId {
							specFail("has(%s(m), k) reads the current heap: write %s(has(m, k))", fn.Name, fn.Name)
						}
					}
				}
			}
			a := args()
			m, k := a[0], a[1]
			if isArraySort(m.S) {
				return Val{sx("select", m.T, k.T), SBoolS, bt}
			}
			mt, ok := types.Unalias(m.GoT).Underlying().(*types.Map)
			if !ok {
				specFail("has() on non-map")
			}
			ks, vs := th.sortOf(mt.Key()), th.sortOf(mt.Elem())
			d, _, _ := fv.declMapHeaps(ks, vs)
			return Val{mkAnd(mkNot(mkEq(m.T, "nil")), sx("select", sx("select", sc.heap(d), m.T), k.T)), SBoolS, bt}
		case "contents":
			a := args()[0]
			et := elemType(a.GoT)
			es := th.sortOf(et)
			h := fv.declSliceHeapT(et)
			return Val{sx("select", sc.heap(h), sx("sl_ref", a.T)), arraySort(SInt, es), types.NewMap(it, et)}
		case "domain":
			m := args()[0]
			mt, ok := types.Unalias(m.GoT).Underlying().(*types.Map)
			if !ok {
				specFail("domain() on non-map")
			}
			ks, vs := th.sortOf(mt.Key()), th.sortOf(mt.Elem())
			d, _, _ := fv.declMapHeaps(ks, vs)
			return Val{sx("select", sc.heap(d), m.T), arraySort(ks, SBoolS), types.NewMap(mt.Key(), bt)}
		case "card":
			a := args()[0]
			mt, ok := a.GoT.(*types.Map)
			if !ok || !isArraySort(a.S) {
				specFail("card() expects a set")
			}
			return Val{sx(fv.cardFun(th.sortOf(mt.Key())), a.T), SInt, it}
		case "tr":
			fv.cardFun(SInt)
			return Val{sx("tr$Int", args()[0].T), SBoolS, bt}
		case "within", "full":
			a := args()
			fv.cardFun(SInt)
			return Val{sx(id.Name+"$Int", a[0].T, a[1].T), SBoolS, bt}
		case "ite":
			a := args()
			return Val{mkIte(a[0].T, a[1].T, a[2].T), a[1].S, a[1].GoT}
		case "itoa":
			return Val{sx("itoa", args()[0].T), SStr, types.Typ[types.String]}
		case "str1":
			return Val{sx("str1", args()[0].T), SStr, types.Typ[types.String]}
		case "dyntype":
			return Val{sx("dyntype", args()[0].T), SInt, it}
		case "store":
			a := args()
			return Val{sx("store", a[0].T, a[1].T, a[2].T), a[0].S, a[0].GoT}
		case "isnil":
			a := args()[0]
			if a.S == SSlice {
				return Val{mkEq(sx("sl_ref", a.T), "nil"), SBoolS, bt}
			}
			return Val{mkEq(a.T, "nil"), SBoolS, bt}
		case "ref":
			a := args()[0]
			if a.S == SSlice {
				return Val{sx("sl_ref", a.T), SRef, nil}
			}
			return Val{a.T, SRef, nil}
		case "onceResult":
			// onceResult("pkg.Func", i): the i-th result of the single call to an extern declared 'once'
			key := x.Args[0].(*SStrLit).V
			idx := x.Args[1].(*SIntLit).V
			ex := fv.w.Externs.Specs[key]
			if ex == nil || !ex.Once {
				specFail("onceResult: %s is not an extern declared once", key)
			}
			_, rt := sc.parseSpecType(x.Args[2].(*SStrLit).V)
			rs := th.sortOf(rt)
			name := fmt.Sprintf("once$%s$r%s", sanitize(key), idx)
			th.declConst(name, rs)
			return Val{name, rs, rt}
		case "string":
			// string(x) of a value of a named string type
			a := fv.specEval(x.Args[0], sc)
			if a.S != SStr {
				specFail("string(): only conversions between string types are supported in specs")
			}
			return Val{a.T, SStr, types.Typ[types.String]}
		case "bitand":
			// bitand(x, m): x & m for a literal power of two m
			a := fv.specEval(x.Args[0], sc)
			b := fv.specEval(x.Args[1], sc)
			t, ok := bitTest(a.T, b.T)
			if !ok {
				specFail("bitand: the mask must be a literal power of two")
			}
			return Val{t, SInt, a.GoT}
		case "second":
			// second(f(...)): the second result of a pure two-result function
			fv.specEval(x.Args[0], sc)
			if len(fv.lastSpecResults) < 2 {
				specFail("second(): not a two-result call")
			}
			return fv.lastSpecResults[1]
		case "framedField", "framedElems", "framedMap", "framedGhost":
			// objects that existed at function entry still have their entry value in the given heap:
			// framedField(T, f): field f of every *T; framedElems(T): elements of every []T;
			// framedMap(K, V): every map[K]V
			var h string
			switch id.Name {
			case "framedField":
				_, T := sc.parseSpecType(x.Args[0].String())
				stt, ok := T.Underlying().(*types.Struct)
				if !ok {
					specFail("framedField: %s is not a struct", x.Args[0].String())
				}
				fname := x.Args[1].String()
				found := false
				for i := 0; i < stt.NumFields(); i++ {
					if stt.Field(i).Name() == fname {
						h = fv.declFieldHeap(th.sortOf(T), fname, th.sortOf(stt.Field(i).Type()))
						found = true
					}
				}
				if !found {
					specFail("framedField: no field %s", fname)
				}
			case "framedElems":
				_, et := sc.parseSpecType(x.Args[0].String())
				h = fv.declSliceHeapT(et)
			case "framedGhost":
				h = "G$" + x.Args[0].(*SStrLit).V
				fv.heapDecl(h, arraySort(SRef, SInt))
			case "framedMap":
				ks, _ := sc.parseSpecType(x.Args[0].String())
				vs, _ := sc.parseSpecType(x.Args[1].String())
				d, v, _ := fv.declMapHeaps(ks, vs)
				now1, then1 := sc.heap(d), fv.getHeap(fv.entry, d)
				now2, then2 := sc.heap(v), fv.getHeap(fv.entry, v)
				al := fv.getHeap(fv.entry, "alloc")
				return Val{fmt.Sprintf("(forall ((r Ref)) (! (=> (select %s r) (and (= (select %s r) (select %s r)) (= (select %s r) (select %s r)))) :pattern ((select %s r)) :pattern ((select %s r))))", al, now1, then1, now2, then2, now1, now2), SBoolS, bt}
			}
			now, then := sc.heap(h), fv.getHeap(fv.entry, h)
			al := fv.getHeap(fv.entry, "alloc")
			if now == then {
				return Val{"true", SBoolS, bt}
			}
			return Val{fmt.Sprintf("(forall ((r Ref)) (! (=> (select %s r) (= (select %s r) (select %s r))) :pattern ((select %s r))))", al, now, then, now), SBoolS, bt}
		case "allocated", "fresh":
			// allocated(x): x is an allocated object now; fresh(x): x was not allocated at function entry
			a := args()[0]
			t := a.T
			if a.S == SSlice {
				t = sx("sl_ref", a.T)
			}
			if id.Name == "allocated" {
				return Val{sx("select", sc.heap("alloc"), t), SBoolS, bt}
			}
			return Val{mkNot(sx("select", fv.getHeap(fv.entry, "alloc"), t)), SBoolS, bt}
		case "runs", "lasterr":
			key := x.Args[0].(*SStrLit).V
			kr := fv.execKeyRef(key)
			if id.Name == "runs" {
				fv.heapDecl("G$runs", arraySort(SRef, SInt))
				return Val{sx("select", sc.heap("G$runs"), kr), SInt, it}
			}
			fv.heapDecl("G$lasterr", arraySort(SRef, SRef))
			return Val{sx("select", sc.heap("G$lasterr"), kr), SRef, nil}
		case "before":
			if sc.loopPre == nil {
				specFail("before() is only available in loop invariants")
			}
			c := sc.child()
			c.st = sc.loopPre
			return fv.specEval(x.Args[0], c)
		case "athead":
			if sc.loopHead == nil {
				specFail("athead() is only available in endassert clauses")
			}
			c := sc.child()
			c.st = sc.loopHead
			return fv.specEval(x.Args[0], c)
		case "atlock":
			// value of an expression right after the (last) Lock() of this function
			if fv.lockSnap == nil {
				specFail("atlock(): no Lock() executed on this path")
			}
			c := sc.child()
			c.st = fv.lockSnap
			return fv.specEval(x.Args[0], c)
		case "held":
			// held(x): the mutex guarding x's fields is held by the current goroutine
			a := args()[0]
			pt, ok := types.Unalias(a.GoT).Underlying().(*types.Pointer)
			if !ok {
				specFail("held(): pointer to a struct with guarded fields expected")
			}
			gs := fv.guardsOf(types.Unalias(pt.Elem()))
			if len(gs) == 0 {
				specFail("held(): %s has no guarded field", pt.Elem())
			}
			h := heldHeap(types.Unalias(pt.Elem()), gs[0].By)
			fv.heapDecl(h, arraySort(SRef, SBoolS))
			return Val{sx("select", sc.heap(h), a.T), SBoolS, bt}
		case "deref":
			a := args()[0]
			pt, ok := types.Unalias(a.GoT).Underlying().(*types.Pointer)
			if !ok {
				specFail("deref(): not a pointer")
			}
			es := th.sortOf(pt.Elem())
			if _, isStruct := th.structOf[es]; isStruct {
				specFail("deref() of struct pointers: use field selection")
			}
			hp := fv.declPtrHeap(es)
			return Val{sx("select", sc.heap(hp), a.T), es, pt.Elem()}
		case "ghost":
			// ghost("name", x): value of a ghost counter heap at reference x
			nm := x.Args[0].(*SStrLit).V
			a := fv.specEval(x.Args[1], sc)
			h := "G$" + nm
			fv.heapDecl(h, arraySort(SRef, SInt))
			return Val{sx("select", sc.heap(h), a.T), SInt, it}
		}
		if pd := fv.findPred(id.Name, sc); pd != nil {
			return fv.applyPred(pd, args(), sc)
		}
		if sf := fv.w.Externs.SpecFuncs[id.Name]; sf != nil {
			a := args()
			if len(a) != len(sf.Params) {
				specFail("specfunc %s: %d arguments expected", sf.Name, len(sf.Params))
			}
			rs, rt := sc.parseSpecType(sf.Ret)
			name := "sf$" + sanitize(sf.Name)
			var sorts []Sort
			ts := make([]string, len(a))
			for i, p := range sf.Params {
				ps, _ := sc.parseSpecType(p.Type)
				sorts = append(sorts, ps)
				ts[i] = a[i].T
			}
			th.declFun(name, sorts, rs)
			return Val{sx(name, ts...), rs, rt}
		}
		// a function of the current package called by name
		if sc.pkg != nil {
			if fo, ok := sc.pkg.Scope().Lookup(id.Name).(*types.Func); ok {
				return fv.specFuncApp(fo, nil, args(), sc)
			}
		}
		specFail("unknown spec function %q", id.Name)
	}
	if sel, ok := x.Fun.(*SSelect); ok {
		// pkg.Func(args) ?
		if id, ok := sel.X.(*SIdent); ok {
			if _, bound := sc.bound[id.Name]; !bound && !(sc.own && fv.hasVar(sc.st, id.Name)) {
				cands := []*types.Package{}
				if ip := fv.importedAs(id.Name); ip != nil {
					cands = append(cands, ip)
				}
				for _, p := range fv.w.All {
					if p.Types != nil && p.Types.Name() == id.Name {
						cands = append(cands, p.Types)
					}
				}
				for _, pt := range cands {
					{
						if fo, ok := pt.Scope().Lookup(sel.Sel).(*types.Func); ok {
							var args []Val
							for _, a := range x.Args {
								args = append(args, fv.specEval(a, sc))
							}
							return fv.specFuncApp(fo, nil, args, sc)
						}
					}
				}
			}
		}
		recv := fv.specEval(sel.X, sc)
		if recv.GoT == nil {
			specFail("method call on value without Go type: %s", x.String())
		}
		obj, path, _ := types.LookupFieldOrMethod(recv.GoT, true, sc.pkg, sel.Sel)
		if obj == nil {
			// unexported method of another package: search by name in the method set
			obj = lookupAnyMethod(recv.GoT, sel.Sel)
		}
		fo, ok := obj.(*types.Func)
		if !ok {
			specFail("no method %s on %s", sel.Sel, recv.GoT)
		}
		_ = path
		var args []Val
		for _, a := range x.Args {
			args = append(args, fv.specEval(a, sc))
		}
		return fv.specFuncApp(fo, &recv, args, sc)
	}
	specFail("unsupported call %s", x.String())
	return Val{}
}

func lookupAnyMethod(t types.Type, name string) types.Object {
	for _, tt := range []types.Type{t, types.NewPointer(t)} {
		ms := types.NewMethodSet(tt)
		for i := 0; i < ms.Len(); i++ {
			if ms.At(i).Obj().Name() == name {
				return ms.At(i).Obj()
			}
		}
	}
	return nil
}

func (fv *FuncVC) hasVar(st *State, name string) bool {
	for o := range st.vars {
		if o.Name() == name {
			return true
		}
	}
	_, ok := st.ghosts[name]
	return ok
}

// specFuncApp: application of a Go function inside a spec: it must be pure (extern pure /
// pure package / repo function with a `pure` contract); it denotes the same uninterpreted
// function the code translation uses.
func (fv *FuncVC) specFuncApp(f *types.Func, recv *Val, args []Val, sc *SpecScope) Val {
	full := funcFullName(f.Origin())
	sig := f.Type().(*types.Signature)
	if key, ok := fv.pureMethodKey(f); ok {
		out := fv.pureApp(nil, f, "im$"+key, recv, args, sc.stOrDummy())
		return out[0]
	}
	// receiver adaptation: value receiver called on pointer etc. is not adjusted in specs
	if fi := fv.w.ByObj[f.Origin()]; fi != nil {
		if fi.Contract == nil || !fi.Contract.Pure {
			specFail("function %s used in a spec is not declared pure", full)
		}
		var all []Val
		if recv != nil {
			all = append(all, *recv)
		}
		all = append(all, args...)
		name := "pure$" + sanitize(fi.FullKey())
		rt := sig.Results().At(0).Type()
		rs := fv.th.sortOf(rt)
		var sorts []Sort
		ts := make([]string, len(all))
		for j, a := range all {
			sorts = append(sorts, a.S)
			ts[j] = a.T
		}
		fv.th.declFun(name, sorts, rs)
		out := []Val{{sx(name, ts...), rs, rt}}
		for ri := 1; ri < sig.Results().Len(); ri++ {
			rrt := sig.Results().At(ri).Type()
			rrs := fv.th.sortOf(rrt)
			nm := fmt.Sprintf("%s$r%d", name, ri+1)
			fv.th.declFun(nm, sorts, rrs)
			out = append(out, Val{sx(nm, ts...), rrs, rrt})
		}
		fv.lastSpecResults = out
		return out[0]
	}
	pkg := ""
	if f.Pkg() != nil {
		pkg = f.Pkg().Path()
	}
	ex := fv.w.Externs.Specs[full]
	if (ex != nil && ex.Pure) || fv.w.Externs.PurePkgs[pkg] {
		if ex != nil {
			fv.usedExterns[ex.Key+" ("+ex.File+")"] = true
		} else {
			fv.usedExterns["purepkg "+pkg+": "+full] = true
		}
		// convert arguments to parameter types (boxing)
		for i := range args {
			np := sig.Params().Len()
			if i < np || (sig.Variadic() && np > 0) {
				var pt types.Type
				if sig.Variadic() && i >= np-1 {
					pt = sig.Params().At(np - 1).Type().(*types.Slice).Elem() // one value of the variadic parameter
				} else {
					pt = sig.Params().At(i).Type()
				}
				if _, isTP := pt.(*types.TypeParam); !isTP && args[i].GoT != nil {
					args[i] = fv.convertTo(args[i], args[i].GoT, pt, sc.st)
				}
			}
		}
		out := fv.pureApp(nil, f, full, recv, args, sc.stOrDummy())
		fv.lastSpecResults = out
		if len(out) == 0 {
			specFail("function %s has no result", full)
		}
		return out[0]
	}
	specFail("function %s used in a spec is not pure", full)
	return Val{}
}

func (sc *SpecScope) stOrDummy() *State {
	// facts emitted for pure applications (ranges) are guarded by the state guard
	return sc.st
}

// applyPred expands a non-recursive predicate as a macro; recursive ones become
// axiomatised SMT functions.
func (fv *FuncVC) applyPred(pd *PredDef, args []Val, sc *SpecScope) Val {
	if len(args) != len(pd.Params) {
		specFail("pred %s: %d arguments expected", pd.Name, len(pd.Params))
	}
	if !pd.Rec {
		c := sc.child()
		c.bound = map[string]Val{}
		c.own = false
		for i, p := range pd.Params {
			c.bound[p.Name] = args[i]
		}
		return fv.specEval(pd.Body, c)
	}
	name := "rec$" + sanitize(pd.Name)
	rs, rt := sc.parseSpecType(pd.Ret)
	if !fv.th.declSeen[name] {
		var sorts []Sort
		c := sc.child()
		c.bound = map[string]Val{}
		c.own = false
		c.noHeap = true
		var binders, bnames []string
		for _, p := range pd.Params {
			s, gt := sc.parseSpecType(p.Type)
			sorts = append(sorts, s)
			bn := "p?" + sanitize(p.Name)
			c.bound[p.Name] = Val{bn, s, gt}
			binders = append(binders, fmt.Sprintf("(%s %s)", bn, s))
			bnames = append(bnames, bn)
		}
		fv.th.declFun(name, sorts, rs)
		body := fv.specEval(pd.Body, c)
		app := sx(name, bnames...)
		fv.th.axioms = append(fv.th.axioms, fmt.Sprintf("(forall (%s) (! (= %s %s) :pattern (%s)))", strings.Join(binders, " "), app, body.T, app))
	}
	ts := make([]string, len(args))
	for i, a := range args {
		ts[i] = a.T
	}
	return Val{sx(name, ts...), rs, rt}
}

// importedAs resolves an import name (possibly an alias) used in the verified function's package.
func (fv *FuncVC) importedAs(name string) *types.Package {
	for _, o := range fv.info.Defs {
		if pn, ok := o.(*types.PkgName); ok && pn.Name() == name {
			return pn.Imported()
		}
	}
	for _, o := range fv.info.Implicits {
		if pn, ok := o.(*types.PkgName); ok && pn.Name() == name {
			return pn.Imported()
		}
	}
	return nil
}
