package main

import (
	"fmt"
	"go/ast"
	"go/types"
)

func isBuilderType(t types.Type) bool {
	n, ok := types.Unalias(t).(*types.Named)
	return ok && n.Obj().Pkg() != nil && n.Obj().Pkg().Path() == "strings" && n.Obj().Name() == "Builder"
}

// intrinsic: higher-order / stateful externs implemented natively by the engine.
// Each one is an ASSUMED contract of the dependency, listed in the evidence.
func (fv *FuncVC) intrinsic(call *ast.CallExpr, f *types.Func, full string, st *State) ([]Val, bool) {
	switch full {
	case "sort.Slice", "sort.SliceStable":
		return fv.sortSlice(call, full == "sort.SliceStable", st)
	case "sort.Strings":
		return fv.sortStrings(call, st)
	case "sort.Sort":
		return fv.sortSort(call, st)
	case "(*strings.Builder).WriteString", "(*strings.Builder).WriteByte", "(*strings.Builder).WriteRune", "(*strings.Builder).String", "(*strings.Builder).Len":
		return fv.builderCall(call, full, st)
	case "(*sync.Mutex).Lock", "(*sync.Mutex).Unlock":
		return fv.mutexCall(call, full, st)
	}
	return nil, false
}

// strings.Builder held in a local variable is modelled by the string accumulated so far.
func (fv *FuncVC) builderCall(call *ast.CallExpr, full string, st *State) ([]Val, bool) {
	se, ok := ast.Unparen(call.Fun).(*ast.SelectorExpr)
	if !ok {
		return nil, false
	}
	id, ok := ast.Unparen(se.X).(*ast.Ident)
	if !ok {
		return nil, false
	}
	o := fv.info.ObjectOf(id)
	cur, ok := st.vars[o]
	if !ok || cur.S != SStr {
		return nil, false
	}
	fv.usedExterns["strings.Builder (intrinsic): a Builder variable is the string written so far; WriteString/WriteByte append; String returns it"] = true
	st_ := types.Typ[types.String]
	switch full {
	case "(*strings.Builder).WriteString":
		a := fv.eval(call.Args[0], st)
		st.vars[o] = fv.named(Val{sx("cat", cur.T, a.T), SStr, cur.GoT}, o.Name())
		return []Val{{sx("slen", a.T), SInt, types.Typ[types.Int]}, {"nil", SRef, nil}}, true
	case "(*strings.Builder).WriteByte":
		a := fv.eval(call.Args[0], st)
		st.vars[o] = fv.named(Val{sx("cat", cur.T, sx("str1", a.T)), SStr, cur.GoT}, o.Name())
		return []Val{{"nil", SRef, nil}}, true
	case "(*strings.Builder).WriteRune":
		fv.note("strings.Builder.WriteRune")
		fv.eval(call.Args[0], st)
		st.vars[o] = fv.havocVal(st, o.Name(), cur.GoT)
		return fv.freshResults(call, st), true
	case "(*strings.Builder).String":
		return []Val{{cur.T, SStr, st_}}, true
	case "(*strings.Builder).Len":
		return []Val{{sx("slen", cur.T), SInt, types.Typ[types.Int]}}, true
	}
	return nil, false
}

// closureLess evaluates the body of `func(i, j int) bool { return e }` with the parameters bound
// to the given index terms, in state st, without emitting obligations or facts.
func (fv *FuncVC) closureLess(fl *ast.FuncLit, st *State, i, j string) (string, bool) {
	if len(fl.Body.List) != 1 {
		return "", false
	}
	ret, ok := fl.Body.List[0].(*ast.ReturnStmt)
	if !ok || len(ret.Results) != 1 {
		return "", false
	}
	var params []*ast.Ident
	for _, f := range fl.Type.Params.List {
		params = append(params, f.Names...)
	}
	if len(params) != 2 {
		return "", false
	}
	s := st.clone()
	s.vars[fv.info.Defs[params[0]]] = Val{i, SInt, types.Typ[types.Int]}
	s.vars[fv.info.Defs[params[1]]] = Val{j, SInt, types.Typ[types.Int]}
	fv.pureMode++
	nObl, nFacts := len(fv.obls), len(fv.facts)
	v := fv.eval(ret.Results[0], s)
	fv.pureMode--
	fv.obls = fv.obls[:nObl]
	fv.facts = fv.facts[:nFacts]
	if v.S != SBoolS {
		return "", false
	}
	return v.T, true
}

// permutationFacts: the array `after` (length n) is a permutation of `before`, witnessed by the
// fresh bijection pi / pinv on [0,n).
func (fv *FuncVC) permutationFacts(st *State, before, after, n string) (pi, pinv string) {
	pi = fv.th.freshName("pi")
	pinv = fv.th.freshName("pinv")
	fv.th.declFun(pi, []Sort{SInt}, SInt)
	fv.th.declFun(pinv, []Sort{SInt}, SInt)
	fv.addFact(st, fmt.Sprintf("(forall ((i Int)) (! (=> (and (<= 0 i) (< i %s)) (and (<= 0 (%s i)) (< (%s i) %s) (= (select %s i) (select %s (%s i))) (= (%s (%s i)) i))) :pattern ((%s i)) :pattern ((select %s i))))",
		n, pi, pi, n, after, before, pi, pinv, pi, pi, after))
	fv.addFact(st, fmt.Sprintf("(forall ((i Int)) (! (=> (and (<= 0 i) (< i %s)) (and (<= 0 (%s i)) (< (%s i) %s) (= (%s (%s i)) i))) :pattern ((%s i)) :pattern ((select %s i))))",
		n, pinv, pinv, n, pi, pinv, pinv, before))
	return pi, pinv
}

// sort.Slice(x, less) / sort.SliceStable(x, less).
// Assumed contract: afterwards x is a permutation of its old contents and no later element is
// `less` than an earlier one; SliceStable additionally keeps the relative order of incomparable
// elements. Side conditions generated as obligations: `less` is a strict weak order on the
// elements (irreflexive, transitive, incomparability transitive) — otherwise the sort package
// promises nothing.
func (fv *FuncVC) sortSlice(call *ast.CallExpr, stable bool, st *State) ([]Val, bool) {
	if len(call.Args) != 2 {
		return nil, false
	}
	fl, ok := call.Args[1].(*ast.FuncLit)
	if !ok {
		return nil, false
	}
	xs := fv.eval(call.Args[0], st)
	if xs.S != SSlice {
		return nil, false
	}
	name := "sort.Slice"
	if stable {
		name = "sort.SliceStable"
	}
	fv.usedExterns[name+" (intrinsic): result is a permutation of the input with no inversion w.r.t. less"+map[bool]string{true: "; incomparable elements keep their order", false: ""}[stable]] = true
	k := fv.nextOrd("call:" + name)
	et := elemType(xs.GoT)
	es := fv.th.sortOf(et)
	h := fv.declSliceHeap(es)
	ref := sx("sl_ref", xs.T)
	n := sx("sl_len", xs.T)
	H := fv.getHeap(st, h)
	before := sx("select", H, ref)

	// side condition: strict weak order, checked on an arbitrary array and arbitrary indices
	{
		arb := fv.th.freshConst("arb", arraySort(SInt, es))
		s2 := st.clone()
		fv.setHeapQuiet(s2, h, sx("store", H, ref, arb))
		a, b, c := fv.th.freshConst("a", SInt), fv.th.freshConst("b", SInt), fv.th.freshConst("c", SInt)
		laa, ok1 := fv.closureLess(fl, s2, a, a)
		lab, _ := fv.closureLess(fl, s2, a, b)
		lba, _ := fv.closureLess(fl, s2, b, a)
		lbc, _ := fv.closureLess(fl, s2, b, c)
		lcb, _ := fv.closureLess(fl, s2, c, b)
		lac, _ := fv.closureLess(fl, s2, a, c)
		lca, ok2 := fv.closureLess(fl, s2, c, a)
		if !ok1 || !ok2 {
			fv.note("comparison closure of %s is not a single return expression", name)
			fv.havocHeap(st, h)
			return nil, true
		}
		fv.oblig(st, "pre", fmt.Sprintf("pre:%s@%d:irreflexive", name, k), "less is irreflexive", mkNot(laa))
		fv.oblig(st, "pre", fmt.Sprintf("pre:%s@%d:transitive", name, k), "less is transitive", mkImp(mkAnd(lab, lbc), lac))
		fv.oblig(st, "pre", fmt.Sprintf("pre:%s@%d:incomparability", name, k), "incomparability under less is transitive",
			mkImp(mkAnd(mkNot(lab), mkNot(lba), mkNot(lbc), mkNot(lcb)), mkAnd(mkNot(lac), mkNot(lca))))
	}

	after := fv.th.freshConst("sorted", arraySort(SInt, es))
	fv.setHeap(st, h, sx("store", H, ref, after))
	pi, _ := fv.permutationFacts(st, before, after, n)
	// no inversion
	lji, _ := fv.closureLess(fl, st, "j?s", "i?s")
	fv.addFact(st, fmt.Sprintf("(forall ((i?s Int) (j?s Int)) (! (=> (and (<= 0 i?s) (< i?s j?s) (< j?s %s)) (not %s)) :pattern ((select %s i?s) (select %s j?s))))", n, lji, after, after))
	if stable {
		lij, _ := fv.closureLess(fl, st, "i?s", "j?s")
		fv.addFact(st, fmt.Sprintf("(forall ((i?s Int) (j?s Int)) (! (=> (and (<= 0 i?s) (< i?s j?s) (< j?s %s) (not %s) (not %s)) (< (%s i?s) (%s j?s))) :pattern ((select %s i?s) (select %s j?s))))",
			n, lij, lji, pi, pi, after, after))
	}
	return nil, true
}

// setHeapQuiet updates a heap without recording a store (used for hypothetical states).
func (fv *FuncVC) setHeapQuiet(st *State, name, term string) { st.heaps[name] = term }

// sort.Strings(x): permutation, non-decreasing w.r.t. the string order.
func (fv *FuncVC) sortStrings(call *ast.CallExpr, st *State) ([]Val, bool) {
	xs := fv.eval(call.Args[0], st)
	if xs.S != SSlice {
		return nil, false
	}
	fv.usedExterns["sort.Strings (intrinsic): result is a permutation of the input, non-decreasing"] = true
	h := fv.declSliceHeap(SStr)
	ref := sx("sl_ref", xs.T)
	n := sx("sl_len", xs.T)
	H := fv.getHeap(st, h)
	before := sx("select", H, ref)
	after := fv.th.freshConst("sorted", arraySort(SInt, SStr))
	fv.setHeap(st, h, sx("store", H, ref, after))
	fv.permutationFacts(st, before, after, n)
	fv.addFact(st, fmt.Sprintf("(forall ((i?s Int) (j?s Int)) (! (=> (and (<= 0 i?s) (< i?s j?s) (< j?s %s)) (not (slt (select %s j?s) (select %s i?s)))) :pattern ((select %s i?s) (select %s j?s))))", n, after, after, after, after))
	return nil, true
}

func (fv *FuncVC) sortSort(call *ast.CallExpr, st *State) ([]Val, bool) {
	return nil, false
}

func (fv *FuncVC) mutexCall(call *ast.CallExpr, full string, st *State) ([]Val, bool) {
	return nil, false
}

func (fv *FuncVC) guardedAccess(st *State, structT types.Type, field string, base Val, text string) {}

func (fv *FuncVC) guardedPointee(st *State, ptrExpr ast.Expr, p Val) {}
