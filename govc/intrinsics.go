package main

import (
	"go/ast"
	"go/types"
)

// intrinsic: higher-order / stateful externs implemented natively by the engine.
func (fv *FuncVC) intrinsic(call *ast.CallExpr, f *types.Func, full string, st *State) ([]Val, bool) {
	return nil, false
}

func (fv *FuncVC) guardedAccess(st *State, structT types.Type, field string, base Val, text string) {}

func (fv *FuncVC) guardedPointee(st *State, ptrExpr ast.Expr, p Val) {}
