package main

import (
	"fmt"
	"go/ast"
	"go/constant"
	"go/types"
)

func constantString(tv types.TypeAndValue) string {
	if tv.Value.Kind() == constant.String {
		return constant.StringVal(tv.Value)
	}
	return tv.Value.ExactString()
}

func isBuilderType(t types.Type) bool {
	n, ok := types.Unalias(t).(*types.Named)
	return ok && n.Obj().Pkg() != nil && n.Obj().Pkg().Path() == "strings" && n.Obj().Name() == "Builder"
}

// intrinsic: higher-order / stateful externs implemented natively by the engine.
// Each one is an ASSUMED contract of the dependency, listed in the evidence.
func (fv *FuncVC) intrinsic(call *ast.CallExpr, f *types.Func, full string, st *State) ([]Val, bool) {
	switch full {
	case "sort.Slice", "sort.SliceStable":
		return fv.sortSlice(call, full == "sort.SliceStable", st)
	case "sort.Strings":
		return fv.sortStrings(call, st)
	case "sort.Sort":
		return fv.sortSort(call, st)
	case "(*strings.Builder).WriteString", "(*strings.Builder).WriteByte", "(*strings.Builder).WriteRune", "(*strings.Builder).String", "(*strings.Builder).Len":
		return fv.builderCall(call, full, st)
	case "(*sync.Mutex).Lock", "(*sync.Mutex).Unlock":
		return fv.mutexCall(call, full, st)
	case "(*os/exec.Cmd).Run":
		return fv.execRun(call, st)
	}
	return nil, false
}

// strings.Builder held in a local variable is modelled by the string accumulated so far.
func (fv *FuncVC) builderCall(call *ast.CallExpr, full string, st *State) ([]Val, bool) {
	se, ok := ast.Unparen(call.Fun).(*ast.SelectorExpr)
	if !ok {
		return nil, false
	}
	id, ok := ast.Unparen(se.X).(*ast.Ident)
	if !ok {
		return nil, false
	}
	o := fv.info.ObjectOf(id)
	cur, ok := st.vars[o]
	if !ok || cur.S != SStr {
		return nil, false
	}
	fv.usedExterns["strings.Builder (intrinsic): a Builder variable is the string written so far; WriteString/WriteByte append; String returns it"] = true
	st_ := types.Typ[types.String]
	switch full {
	case "(*strings.Builder).WriteString":
		a := fv.eval(call.Args[0], st)
		st.vars[o] = fv.named(Val{sx("cat", cur.T, a.T), SStr, cur.GoT}, o.Name())
		return []Val{{sx("slen", a.T), SInt, types.Typ[types.Int]}, {"nil", SRef, nil}}, true
	case "(*strings.Builder).WriteByte":
		a := fv.eval(call.Args[0], st)
		st.vars[o] = fv.named(Val{sx("cat", cur.T, sx("str1", a.T)), SStr, cur.GoT}, o.Name())
		return []Val{{"nil", SRef, nil}}, true
	case "(*strings.Builder).WriteRune":
		fv.note("strings.Builder.WriteRune")
		fv.eval(call.Args[0], st)
		st.vars[o] = fv.havocVal(st, o.Name(), cur.GoT)
		return fv.freshResults(call, st), true
	case "(*strings.Builder).String":
		return []Val{{cur.T, SStr, st_}}, true
	case "(*strings.Builder).Len":
		return []Val{{sx("slen", cur.T), SInt, types.Typ[types.Int]}}, true
	}
	return nil, false
}

// closureLess evaluates the body of `func(i, j int) bool { return e }` with the parameters bound
// to the given index terms, in state st, without emitting obligations or facts.
func (fv *FuncVC) closureLess(fl *ast.FuncLit, st *State, i, j string) (string, bool) {
	if len(fl.Body.List) != 1 {
		return "", false
	}
	ret, ok := fl.Body.List[0].(*ast.ReturnStmt)
	if !ok || len(ret.Results) != 1 {
		return "", false
	}
	var params []*ast.Ident
	for _, f := range fl.Type.Params.List {
		params = append(params, f.Names...)
	}
	if len(params) != 2 {
		return "", false
	}
	s := st.clone()
	s.vars[fv.info.Defs[params[0]]] = Val{i, SInt, types.Typ[types.Int]}
	s.vars[fv.info.Defs[params[1]]] = Val{j, SInt, types.Typ[types.Int]}
	fv.pureMode++
	nObl, nFacts := len(fv.obls), len(fv.facts)
	v := fv.eval(ret.Results[0], s)
	fv.pureMode--
	fv.obls = fv.obls[:nObl]
	fv.facts = fv.facts[:nFacts]
	if v.S != SBoolS {
		return "", false
	}
	return v.T, true
}

// permutationFacts: the array `after` (length n) is a permutation of `before`, witnessed by the
// fresh bijection pi / pinv on [0,n).
func (fv *FuncVC) permutationFacts(st *State, before, after, n string) (pi, pinv string) {
	pi = fv.th.freshName("pi")
	pinv = fv.th.freshName("pinv")
	fv.th.declFun(pi, []Sort{SInt}, SInt)
	fv.th.declFun(pinv, []Sort{SInt}, SInt)
	fv.addFact(st, fmt.Sprintf("(forall ((i Int)) (! (=> (and (<= 0 i) (< i %s)) (and (<= 0 (%s i)) (< (%s i) %s) (= (select %s i) (select %s (%s i))) (= (%s (%s i)) i))) :pattern ((%s i)) :pattern ((select %s i))))",
		n, pi, pi, n, after, before, pi, pinv, pi, pi, after))
	fv.addFact(st, fmt.Sprintf("(forall ((i Int)) (! (=> (and (<= 0 i) (< i %s)) (and (<= 0 (%s i)) (< (%s i) %s) (= (%s (%s i)) i))) :pattern ((%s i)) :pattern ((select %s i))))",
		n, pinv, pinv, n, pi, pinv, pinv, before))
	return pi, pinv
}

// sort.Slice(x, less) / sort.SliceStable(x, less).
// Assumed contract: afterwards x is a permutation of its old contents and no later element is
// `less` than an earlier one; SliceStable additionally keeps the relative order of incomparable
// elements. Side conditions generated as obligations: `less` is a strict weak order on the
// elements (irreflexive, transitive, incomparability transitive) — otherwise the sort package
// promises nothing.
func (fv *FuncVC) sortSlice(call *ast.CallExpr, stable bool, st *State) ([]Val, bool) {
	if len(call.Args) != 2 {
		return nil, false
	}
	fl, ok := call.Args[1].(*ast.FuncLit)
	if !ok {
		return nil, false
	}
	xs := fv.eval(call.Args[0], st)
	if xs.S != SSlice {
		return nil, false
	}
	name := "sort.Slice"
	if stable {
		name = "sort.SliceStable"
	}
	fv.usedExterns[name+" (intrinsic): result is a permutation of the input with no inversion w.r.t. less"+map[bool]string{true: "; incomparable elements keep their order", false: ""}[stable]] = true
	k := fv.nextOrd("call:" + name)
	et := elemType(xs.GoT)
	es := fv.th.sortOf(et)
	h := fv.declSliceHeapT(et)
	ref := sx("sl_ref", xs.T)
	n := sx("sl_len", xs.T)
	H := fv.getHeap(st, h)
	before := sx("select", H, ref)

	// side condition: strict weak order, checked on an arbitrary array and arbitrary indices
	{
		arb := fv.th.freshConst("arb", arraySort(SInt, es))
		s2 := st.clone()
		fv.setHeapQuiet(s2, h, sx("store", H, ref, arb))
		a, b, c := fv.th.freshConst("a", SInt), fv.th.freshConst("b", SInt), fv.th.freshConst("c", SInt)
		laa, ok1 := fv.closureLess(fl, s2, a, a)
		lab, _ := fv.closureLess(fl, s2, a, b)
		lba, _ := fv.closureLess(fl, s2, b, a)
		lbc, _ := fv.closureLess(fl, s2, b, c)
		lcb, _ := fv.closureLess(fl, s2, c, b)
		lac, _ := fv.closureLess(fl, s2, a, c)
		lca, ok2 := fv.closureLess(fl, s2, c, a)
		if !ok1 || !ok2 {
			fv.note("comparison closure of %s is not a single return expression", name)
			fv.havocHeap(st, h)
			return nil, true
		}
		fv.oblig(st, "pre", fmt.Sprintf("pre:%s@%d:irreflexive", name, k), "less is irreflexive", mkNot(laa))
		fv.oblig(st, "pre", fmt.Sprintf("pre:%s@%d:transitive", name, k), "less is transitive", mkImp(mkAnd(lab, lbc), lac))
		fv.oblig(st, "pre", fmt.Sprintf("pre:%s@%d:incomparability", name, k), "incomparability under less is transitive",
			mkImp(mkAnd(mkNot(lab), mkNot(lba), mkNot(lbc), mkNot(lcb)), mkAnd(mkNot(lac), mkNot(lca))))
	}

	after := fv.th.freshConst("sorted", arraySort(SInt, es))
	fv.setHeap(st, h, sx("store", H, ref, after))
	pi, _ := fv.permutationFacts(st, before, after, n)
	// no inversion (evaluated on the explicit store term so that reads simplify to `after`)
	s4 := st.clone()
	fv.setHeapQuiet(s4, h, sx("store", fv.getHeap(s4, h), ref, after))
	lji, _ := fv.closureLess(fl, s4, "j?s", "i?s")
	fv.addFact(st, fmt.Sprintf("(forall ((i?s Int) (j?s Int)) (! (=> (and (<= 0 i?s) (< i?s j?s) (< j?s %s)) (not %s)) :pattern ((select %s i?s) (select %s j?s))))", n, lji, after, after))
	if stable {
		lij, _ := fv.closureLess(fl, s4, "i?s", "j?s")
		fv.addFact(st, fmt.Sprintf("(forall ((i?s Int) (j?s Int)) (! (=> (and (<= 0 i?s) (< i?s j?s) (< j?s %s) (not %s) (not %s)) (< (%s i?s) (%s j?s))) :pattern ((select %s i?s) (select %s j?s))))",
			n, lij, lji, pi, pi, after, after))
	}
	return nil, true
}

// setHeapQuiet updates a heap without recording a store (used for hypothetical states).
func (fv *FuncVC) setHeapQuiet(st *State, name, term string) { st.heaps[name] = term }

// sort.Strings(x): permutation, non-decreasing w.r.t. the string order.
func (fv *FuncVC) sortStrings(call *ast.CallExpr, st *State) ([]Val, bool) {
	xs := fv.eval(call.Args[0], st)
	if xs.S != SSlice {
		return nil, false
	}
	fv.usedExterns["sort.Strings (intrinsic): result is a permutation of the input, non-decreasing"] = true
	h := fv.declSliceHeap(SStr)
	ref := sx("sl_ref", xs.T)
	n := sx("sl_len", xs.T)
	H := fv.getHeap(st, h)
	before := sx("select", H, ref)
	after := fv.th.freshConst("sorted", arraySort(SInt, SStr))
	fv.setHeap(st, h, sx("store", H, ref, after))
	fv.permutationFacts(st, before, after, n)
	fv.addFact(st, fmt.Sprintf("(forall ((i?s Int) (j?s Int)) (! (=> (and (<= 0 i?s) (< i?s j?s) (< j?s %s)) (not (slt (select %s j?s) (select %s i?s)))) :pattern ((select %s i?s) (select %s j?s))))", n, after, after, after, after))
	return nil, true
}

// methodInfo finds the declaration of method `name` of type T in the repository.
func (fv *FuncVC) methodInfo(T types.Type, name string) *FuncInfo {
	for _, tt := range []types.Type{T, types.NewPointer(T)} {
		ms := types.NewMethodSet(tt)
		for i := 0; i < ms.Len(); i++ {
			if f, ok := ms.At(i).Obj().(*types.Func); ok && f.Name() == name {
				return fv.w.ByObj[f.Origin()]
			}
		}
	}
	return nil
}

// bindMethod binds receiver and int parameters of a method in a copy of st.
func (fv *FuncVC) bindMethod(fi *FuncInfo, recv Val, args []string, st *State) (*State, bool) {
	s := st.clone()
	if fi.Decl.Recv != nil && len(fi.Decl.Recv.List) > 0 && len(fi.Decl.Recv.List[0].Names) > 0 {
		s.vars[fv.info.Defs[fi.Decl.Recv.List[0].Names[0]]] = recv
	}
	var params []*ast.Ident
	for _, f := range fi.Decl.Type.Params.List {
		params = append(params, f.Names...)
	}
	if len(params) != len(args) {
		return nil, false
	}
	for i, p := range params {
		s.vars[fv.info.Defs[p]] = Val{args[i], SInt, types.Typ[types.Int]}
	}
	return s, true
}

// inlineExpr evaluates a method whose body is `return e`, without obligations or facts.
func (fv *FuncVC) inlineExpr(fi *FuncInfo, recv Val, args []string, st *State) (Val, bool) {
	if fi == nil || fi.Pkg != fv.fi.Pkg || len(fi.Decl.Body.List) != 1 {
		return Val{}, false
	}
	ret, ok := fi.Decl.Body.List[0].(*ast.ReturnStmt)
	if !ok || len(ret.Results) != 1 {
		return Val{}, false
	}
	s, ok := fv.bindMethod(fi, recv, args, st)
	if !ok {
		return Val{}, false
	}
	fv.pureMode++
	nObl, nFacts := len(fv.obls), len(fv.facts)
	v := fv.eval(ret.Results[0], s)
	fv.pureMode--
	fv.obls = fv.obls[:nObl]
	fv.facts = fv.facts[:nFacts]
	return v, true
}

// sort.Sort(x) for a value x whose type implements sort.Interface with methods declared in the
// verified package. Assumed contract of package sort: it calls x.Len() and then only x.Less and
// x.Swap with indices in [0, Len()); on return no later element is Less than an earlier one.
// The three methods are NOT trusted: their bodies are translated here (mechanically, from the
// source) and these obligations are generated: Swap(a,b) exchanges positions a and b of every
// slice field of x and changes nothing else (so any sequence of swaps is one permutation applied
// to all slice fields at once — what keeps parallel slices aligned); Less is a strict weak order.
func (fv *FuncVC) sortSort(call *ast.CallExpr, st *State) ([]Val, bool) {
	if len(call.Args) != 1 {
		return nil, false
	}
	T := fv.typeOf(call.Args[0])
	stt, ok := types.Unalias(T).Underlying().(*types.Struct)
	if !ok {
		return nil, false
	}
	lenFI, lessFI, swapFI := fv.methodInfo(T, "Len"), fv.methodInfo(T, "Less"), fv.methodInfo(T, "Swap")
	if lenFI == nil || lessFI == nil || swapFI == nil || swapFI.Pkg != fv.fi.Pkg {
		return nil, false
	}
	x := fv.eval(call.Args[0], st)
	x = fv.named(x, "sorter")
	k := fv.nextOrd("call:sort.Sort")
	fv.usedExterns["sort.Sort (intrinsic): calls Len once, then Less/Swap with indices in range; on return no inversion w.r.t. Less"] = true
	nV, ok := fv.inlineExpr(lenFI, x, nil, st)
	if !ok {
		fv.note("sort.Sort: Len is not a single return expression")
		fv.havocAllHeaps(st)
		return nil, true
	}
	n := nV.T
	ss := fv.th.sortOf(T)
	type sliceField struct {
		name       string
		val        Val
		heap       string
		ref        string
		es         Sort
	}
	var fields []sliceField
	for i := 0; i < stt.NumFields(); i++ {
		f := stt.Field(i)
		if fv.th.sortOf(f.Type()) != SSlice {
			continue
		}
		v := Val{sx(fv.th.fieldAcc(string(ss), f.Name()), x.T), SSlice, f.Type()}
		es := fv.th.sortOf(elemType(f.Type()))
		fields = append(fields, sliceField{f.Name(), v, fv.declSliceHeapT(elemType(f.Type())), sx("sl_ref", v.T), es})
	}
	// ---- Swap really swaps (checked on the current state, arbitrary indices in range)
	a, b := fv.th.freshConst("swap_i", SInt), fv.th.freshConst("swap_j", SInt)
	hasReturn := false
	ast.Inspect(swapFI.Decl.Body, func(m ast.Node) bool {
		if _, ok := m.(*ast.ReturnStmt); ok {
			hasReturn = true
		}
		return true
	})
	s2, ok := fv.bindMethod(swapFI, x, []string{a, b}, st)
	if !ok || hasReturn {
		fv.note("sort.Sort: Swap has an unsupported shape")
		fv.havocAllHeaps(st)
		return nil, true
	}
	s2.guard = mkAnd(st.guard, sx("<=", "0", a), sx("<", a, n), sx("<=", "0", b), sx("<", b, n))
	savedFrames, logStart := fv.frames, len(fv.storeLog)
	fv.frames = nil
	s2 = fv.execBlock(swapFI.Decl.Body.List, s2)
	fv.frames = savedFrames
	fv.storeLog = fv.storeLog[:logStart]
	expected := map[string]string{}
	for _, f := range fields {
		E, ok := expected[f.heap]
		if !ok {
			E = fv.getHeap(st, f.heap)
		}
		A := sx("select", E, f.ref)
		expected[f.heap] = sx("store", E, f.ref, sx("store", sx("store", A, a, sx("select", A, b)), b, sx("select", A, a)))
	}
	names := make([]string, 0, len(fv.heapSort))
	for h := range fv.heapSort {
		names = append(names, h)
	}
	sortStringsInPlace(names)
	for _, h := range names {
		now := fv.getHeap(s2, h)
		want, isField := expected[h]
		if !isField {
			want = fv.getHeap(st, h)
			if now == want || h == "alloc" {
				continue
			}
		}
		fv.oblig(s2, "pre", fmt.Sprintf("pre:sort.Sort@%d:swap:%s", k, shortHeap(h)), "Swap(i,j) exchanges positions i and j of every slice field and changes nothing else", mkEq(now, want))
	}
	// ---- Less is a strict weak order (arbitrary contents)
	{
		s3 := st.clone()
		for _, f := range fields {
			arb := fv.th.freshConst("arb", arraySort(SInt, f.es))
			fv.setHeapQuiet(s3, f.heap, sx("store", fv.getHeap(s3, f.heap), f.ref, arb))
		}
		c := fv.th.freshConst("swo_k", SInt)
		L := func(p, q string) string {
			v, ok := fv.inlineExpr(lessFI, x, []string{p, q}, s3)
			if !ok {
				return "false"
			}
			return v.T
		}
		if _, ok := fv.inlineExpr(lessFI, x, []string{a, b}, s3); !ok {
			fv.note("sort.Sort: Less is not a single return expression")
			fv.havocAllHeaps(st)
			return nil, true
		}
		fv.oblig(st, "pre", fmt.Sprintf("pre:sort.Sort@%d:irreflexive", k), "Less is irreflexive", mkNot(L(a, a)))
		fv.oblig(st, "pre", fmt.Sprintf("pre:sort.Sort@%d:transitive", k), "Less is transitive", mkImp(mkAnd(L(a, b), L(b, c)), L(a, c)))
		fv.oblig(st, "pre", fmt.Sprintf("pre:sort.Sort@%d:incomparability", k), "incomparability under Less is transitive",
			mkImp(mkAnd(mkNot(L(a, b)), mkNot(L(b, a)), mkNot(L(b, c)), mkNot(L(c, b))), mkAnd(mkNot(L(a, c)), mkNot(L(c, a)))))
	}
	// ---- effect: one permutation applied to every slice field; sorted w.r.t. Less
	var pi string
	afters := map[string]string{}
	for i, f := range fields {
		H := fv.getHeap(st, f.heap)
		before := sx("select", H, f.ref)
		after := fv.th.freshConst("sorted$"+f.name, arraySort(SInt, f.es))
		afters[f.name] = after
		fv.setHeap(st, f.heap, sx("store", H, f.ref, after))
		if i == 0 {
			pi, _ = fv.permutationFacts(st, before, after, n)
		} else {
			fv.addFact(st, fmt.Sprintf("(forall ((i Int)) (! (=> (and (<= 0 i) (< i %s)) (= (select %s i) (select %s (%s i)))) :pattern ((select %s i)) :pattern ((%s i))))", n, after, before, pi, after, pi))
		}
	}
	s4 := st.clone()
	for _, f := range fields {
		fv.setHeapQuiet(s4, f.heap, sx("store", fv.getHeap(s4, f.heap), f.ref, afters[f.name]))
	}
	lji, _ := fv.inlineExpr(lessFI, x, []string{"j?s", "i?s"}, s4)
	fv.addFact(st, fmt.Sprintf("(forall ((i?s Int) (j?s Int)) (=> (and (<= 0 i?s) (< i?s j?s) (< j?s %s)) (not %s)))", n, lji.T))
	return nil, true
}

func sortStringsInPlace(xs []string) {
	for i := 1; i < len(xs); i++ {
		for j := i; j > 0 && xs[j] < xs[j-1]; j-- {
			xs[j], xs[j-1] = xs[j-1], xs[j]
		}
	}
}

// ---- lock discipline (C20)
//
// Proof rule (sequential rule of concurrent separation logic for a mutex protecting data):
// fields declared `//@ guarded T.f by lock` may be read or written only while the current
// goroutine holds T.lock; after Lock() their values are unknown (other goroutines may have
// run their critical sections) except for what write-once monotonicity gives; pointer-typed
// guarded fields are write-once: a store must happen while the field is nil and must store a
// non-nil pointer, so that "cached" can never be undone. Soundness of this rule for sync.Mutex
// under the Go memory model is the trusted meta-theorem.

func (fv *FuncVC) guardsOf(structT types.Type) []GuardDecl {
	n, ok := types.Unalias(structT).(*types.Named)
	if !ok || n.Obj().Pkg() == nil {
		return nil
	}
	q := n.Obj().Pkg().Path() + "." + n.Obj().Name()
	var out []GuardDecl
	for _, g := range fv.w.Guarded {
		if g.Struct == q {
			out = append(out, g)
		}
	}
	return out
}

func heldHeap(structT types.Type, lockField string) string {
	n := types.Unalias(structT).(*types.Named)
	return "Held$" + sanitize(n.Obj().Pkg().Path()+"."+n.Obj().Name()+"."+lockField)
}

// lockOwner splits `x.lock` into the owner expression x (pointer to struct) and the lock field.
func (fv *FuncVC) lockOwner(e ast.Expr) (ast.Expr, types.Type, string, bool) {
	se, ok := ast.Unparen(e).(*ast.SelectorExpr)
	if !ok {
		return nil, nil, "", false
	}
	t := types.Unalias(fv.typeOf(se.X))
	if p, ok := t.Underlying().(*types.Pointer); ok {
		t = types.Unalias(p.Elem())
	} else {
		return nil, nil, "", false
	}
	if _, ok := t.Underlying().(*types.Struct); !ok {
		return nil, nil, "", false
	}
	return se.X, t, se.Sel.Name, true
}

func (fv *FuncVC) mutexCall(call *ast.CallExpr, full string, st *State) ([]Val, bool) {
	se, ok := ast.Unparen(call.Fun).(*ast.SelectorExpr)
	if !ok {
		return nil, false
	}
	ownerExpr, structT, lockField, ok := fv.lockOwner(se.X)
	if !ok {
		return nil, false
	}
	owner := fv.eval(ownerExpr, st)
	n := fv.nextOrd("nilptr")
	fv.oblig(st, "safe", fmt.Sprintf("safe:nilptr@%d", n), "lock of "+fv.text(se.X), mkNot(mkEq(owner.T, "nil")))
	fv.addFact(st, mkNot(mkEq(owner.T, "nil")))
	h := heldHeap(structT, lockField)
	fv.heapDecl(h, arraySort(SRef, SBoolS))
	fv.usedExterns["sync.Mutex (intrinsic): lock-invariant rule — guarded fields are stable while the mutex is held and unknown (modulo write-once) after Lock"] = true
	k := fv.nextOrd("lockop")
	H := fv.getHeap(st, h)
	if full == "(*sync.Mutex).Lock" {
		fv.oblig(st, "lock", fmt.Sprintf("lock:notheld@%d", k), "Lock() while the mutex is not already held by this goroutine (sync.Mutex is not reentrant)", mkNot(sx("select", H, owner.T)))
		fv.setHeap(st, h, sx("store", H, owner.T, "true"))
		// other goroutines may have updated the guarded fields since our last critical section
		ss := fv.th.sortOf(structT)
		stt := structT.Underlying().(*types.Struct)
		for _, g := range fv.guardsOf(structT) {
			if g.By != lockField {
				continue
			}
			for i := 0; i < stt.NumFields(); i++ {
				f := stt.Field(i)
				if f.Name() != g.Field {
					continue
				}
				fs := fv.th.sortOf(f.Type())
				fh := fv.declFieldHeap(ss, f.Name(), fs)
				F := fv.getHeap(st, fh)
				before := sx("select", F, owner.T)
				nv := fv.havocVal(st, "shared$"+f.Name(), f.Type())
				if fs == SRef {
					// write-once: a non-nil pointer stays what it was
					fv.addFact(st, mkImp(mkNot(mkEq(before, "nil")), mkEq(nv.T, before)))
					// the pointee of a published pointer may have been written by the publishing critical section only:
					// it is not modified afterwards (pointee stores are checked to target freshly allocated objects)
				}
				fv.setHeap(st, fh, sx("store", F, owner.T, nv.T))
			}
		}
		fv.lockSnap = st.clone()
		return nil, true
	}
	fv.oblig(st, "lock", fmt.Sprintf("lock:held@%d", k), "Unlock() of a mutex held by this goroutine", sx("select", H, owner.T))
	fv.setHeap(st, h, sx("store", H, owner.T, "false"))
	return nil, true
}

// guardedAccess: reading or writing a guarded field requires the lock.
func (fv *FuncVC) guardedAccess(st *State, structT types.Type, field string, base Val, text string) {
	if fv.pureMode > 0 {
		return
	}
	for _, g := range fv.guardsOf(structT) {
		if g.Field != field {
			continue
		}
		h := heldHeap(structT, g.By)
		fv.heapDecl(h, arraySort(SRef, SBoolS))
		k := fv.nextOrd("lock:" + field)
		fv.oblig(st, "lock", fmt.Sprintf("lock:%s@%d", field, k), "access to guarded field "+text+" while holding "+g.By, sx("select", fv.getHeap(st, h), base.T))
	}
}

// guardedStore: write-once discipline of guarded pointer fields.
func (fv *FuncVC) guardedStore(st *State, structT types.Type, field string, base Val, old, nv Val, text string) {
	for _, g := range fv.guardsOf(structT) {
		if g.Field != field || nv.S != SRef {
			continue
		}
		k := fv.nextOrd("lockw:" + field)
		fv.oblig(st, "lock", fmt.Sprintf("lock:writeonce:%s@%d", field, k), "guarded pointer "+text+" is written only while nil, with a non-nil value (a cached probe result is never dropped)",
			mkAnd(mkEq(old.T, "nil"), mkNot(mkEq(nv.T, "nil"))))
	}
}

// guardedPointee: *x.f where f is a guarded pointer field — the pointee is shared too.
func (fv *FuncVC) guardedPointee(st *State, ptrExpr ast.Expr, p Val) {
	se, ok := ast.Unparen(ptrExpr).(*ast.SelectorExpr)
	if !ok {
		return
	}
	sel := fv.info.Selections[se]
	if sel == nil || sel.Kind() != types.FieldVal {
		return
	}
	t := types.Unalias(fv.typeOf(se.X))
	pt, ok := t.Underlying().(*types.Pointer)
	if !ok {
		return
	}
	structT := types.Unalias(pt.Elem())
	for _, g := range fv.guardsOf(structT) {
		if g.Field != se.Sel.Name {
			continue
		}
		owner := fv.eval(se.X, st)
		h := heldHeap(structT, g.By)
		fv.heapDecl(h, arraySort(SRef, SBoolS))
		k := fv.nextOrd("lockp:" + g.Field)
		fv.oblig(st, "lock", fmt.Sprintf("lock:pointee:%s@%d", g.Field, k), "access to the pointee of guarded field "+fv.text(ptrExpr)+" while holding "+g.By, sx("select", fv.getHeap(st, h), owner.T))
	}
}

// exec.Command(<args>).Run(): ghost counter per command line (non-constant arguments are
// abstracted to "%"), plus the error of the last run. Assumed: Run starts the process once.
func execKey(fv *FuncVC, call *ast.CallExpr) (string, bool) {
	se, ok := ast.Unparen(call.Fun).(*ast.SelectorExpr)
	if !ok {
		return "", false
	}
	inner, ok := ast.Unparen(se.X).(*ast.CallExpr)
	if !ok {
		return "", false
	}
	f, ok := fv.calleeOf(inner).(*types.Func)
	if !ok || f.FullName() != "os/exec.Command" {
		return "", false
	}
	key := ""
	for i, a := range inner.Args {
		if i > 0 {
			key += " "
		}
		if tv, ok := fv.info.Types[a]; ok && tv.Value != nil {
			key += constantString(tv)
		} else {
			key += "%"
		}
	}
	return key, true
}

func (fv *FuncVC) execKeyRef(key string) string {
	name := "execkey$" + sanitize(key)
	if !fv.th.declSeen[name] {
		fv.th.declConst(name, SRef)
		for _, other := range fv.execKeys {
			fv.th.axioms = append(fv.th.axioms, mkNot(mkEq(name, other)))
		}
		fv.execKeys = append(fv.execKeys, name)
	}
	return name
}

func (fv *FuncVC) execRun(call *ast.CallExpr, st *State) ([]Val, bool) {
	key, ok := execKey(fv, call)
	if !ok {
		return nil, false
	}
	// evaluate the non-constant arguments (for their safety obligations)
	inner := ast.Unparen(ast.Unparen(call.Fun).(*ast.SelectorExpr).X).(*ast.CallExpr)
	for _, a := range inner.Args {
		fv.eval(a, st)
	}
	fv.usedExterns["os/exec (intrinsic): exec.Command(argv).Run() starts the process once: ghost counter runs(argv)++ and returns an arbitrary error value recorded as lasterr(argv)"] = true
	kr := fv.execKeyRef(key)
	fv.heapDecl("G$runs", arraySort(SRef, SInt))
	fv.heapDecl("G$lasterr", arraySort(SRef, SRef))
	R := fv.getHeap(st, "G$runs")
	fv.setHeap(st, "G$runs", sx("store", R, kr, sx("+", sx("select", R, kr), "1")))
	err := fv.th.freshConst("runerr", SRef)
	fv.setHeap(st, "G$lasterr", sx("store", fv.getHeap(st, "G$lasterr"), kr, err))
	return []Val{{err, SRef, fv.typeOf(call)}}, true
}
