package main

import (
	"fmt"
	"go/ast"
	"go/types"
	"sort"
)

type ndSource struct {
	Kind string // maprange select go call
	Func string
	Pos  string
	Text string
	Loop int // loop ordinal within the function (maprange)
	Node ast.Node
	FI   *FuncInfo
}

var ndCalls = map[string]bool{
	"time.Now": true, "time.Since": true, "os.Getpid": true, "os.Hostname": true, "os.Getwd": false,
}

// enumerateNondeterminism lists every syntactic source of nondeterminism in the loaded repo packages.
func enumerateNondeterminism(w *World) []ndSource {
	var out []ndSource
	for _, k := range w.sortedFuncKeys() {
		fi := w.Funcs[k]
		info := fi.Pkg.TypesInfo
		ord := 0
		ast.Inspect(fi.Decl.Body, func(n ast.Node) bool {
			switch x := n.(type) {
			case *ast.ForStmt:
				ord++
			case *ast.RangeStmt:
				ord++
				if tv, ok := info.Types[x.X]; ok {
					if _, isMap := types.Unalias(tv.Type).Underlying().(*types.Map); isMap {
						out = append(out, ndSource{"maprange", k, w.pos(x.Pos()), exprText(w.Fset, x.X), ord, x, fi})
					}
				}
			case *ast.SelectStmt:
				out = append(out, ndSource{"select", k, w.pos(x.Pos()), "select", 0, x, fi})
			case *ast.GoStmt:
				out = append(out, ndSource{"go", k, w.pos(x.Pos()), exprText(w.Fset, x.Call), 0, x, fi})
			case *ast.CallExpr:
				var obj types.Object
				switch f := ast.Unparen(x.Fun).(type) {
				case *ast.Ident:
					obj = info.ObjectOf(f)
				case *ast.SelectorExpr:
					obj = info.ObjectOf(f.Sel)
				}
				if fn, ok := obj.(*types.Func); ok && fn.Pkg() != nil {
					full := fn.FullName()
					p := fn.Pkg().Path()
					if p == "math/rand" || p == "math/rand/v2" || p == "crypto/rand" || ndCalls[full] || p == "maps" {
						out = append(out, ndSource{"call", k, w.pos(x.Pos()), full, 0, x, fi})
					}
				}
			}
			return true
		})
	}
	sort.Slice(out, func(i, j int) bool { return out[i].Pos < out[j].Pos })
	return out
}

func cmdSources() {
	w, err := loadWorld()
	if err != nil {
		panic(err)
	}
	for _, s := range enumerateNondeterminism(w) {
		fmt.Printf("%-9s %-60s loop %d  %s   [%s]\n", s.Kind, shortName(s.Func), s.Loop, s.Text, s.Pos)
	}
}
