package main

import (
	"fmt"
	"go/ast"
	"go/token"
	"go/types"
	"regexp"
	"sort"
	"strconv"
	"strings"
)

type drySnapshot struct {
	nObls, nFacts int
	counters      map[string]int
	loopOrd, ret  int
	frames        []*jumpFrame
	defers        int
	nUnsupported  int
	descCount     map[string]int
}

type dryInfo struct {
	on     bool
	states []*State
}

func (fv *FuncVC) snapshot() drySnapshot {
	c := map[string]int{}
	for k, v := range fv.counters {
		c[k] = v
	}
	dc := map[string]int{}
	for k, v := range fv.loopDescCount {
		dc[k] = v
	}
	return drySnapshot{descCount: dc, nObls: len(fv.obls), nFacts: len(fv.facts), counters: c, loopOrd: fv.loopOrd, ret: fv.retOrd,
		frames: append([]*jumpFrame(nil), fv.frames...), defers: len(fv.defers)}
}

func (fv *FuncVC) restore(s drySnapshot) {
	fv.obls = fv.obls[:s.nObls]
	fv.facts = fv.facts[:s.nFacts]
	fv.counters = s.counters
	fv.loopDescCount = s.descCount
	fv.loopOrd = s.loopOrd
	fv.retOrd = s.ret
	fv.frames = s.frames
	fv.defers = fv.defers[:s.defers]
}

// loopContract finds the contract of a loop: by descriptor ("<ranged expression>.<k>" — the k-th
// loop of the function ranging over that expression — or "for.<k>"), else by source ordinal.
// Descriptors survive the insertion of unrelated loops.
func (fv *FuncVC) loopContract(ord int, n ast.Node) *LoopContract {
	if fv.fi.Contract == nil {
		return nil
	}
	desc := "for"
	if r, ok := n.(*ast.RangeStmt); ok {
		desc = strings.ReplaceAll(fv.text(r.X), " ", "")
	}
	fv.loopDescCount[desc]++
	key := fmt.Sprintf("%s.%d", desc, fv.loopDescCount[desc])
	if lc := fv.fi.Contract.LoopsByDesc[key]; lc != nil {
		return lc
	}
	return fv.fi.Contract.Loops[ord]
}

type loopCtx struct {
	head    *State // state at the head of the iteration: athead(e) in endassert clauses
	pre     *State // state on loop entry: before(e) in invariants
	ord     int
	lc      *LoopContract
	autoInv []autoInv
}

type autoInv struct {
	text string
	term func(st *State) string
}

// checkInvariants asserts all invariants in state st (phase = "init" / "pres").
func (fv *FuncVC) checkInvariants(lx *loopCtx, st *State, phase string) {
	for i, ai := range lx.autoInv {
		fv.oblig(st, "inv", fmt.Sprintf("inv:%d:auto%d:%s", lx.ord, i+1, phase), ai.text, ai.term(st))
	}
	if lx.lc == nil || fv.mode != "full" {
		return
	}
	for i, c := range lx.lc.Invariants {
		sc := fv.specScope(st, fv.entry, false)
		sc.loopPre = lx.pre
		g := fv.specBool(c.Expr, sc)
		fv.oblig(st, "inv", fmt.Sprintf("inv:%d:%d:%s", lx.ord, i+1, phase), c.Text, g)
		// later invariants may rely on earlier ones
		fv.addFact(st, g)
	}
}

func (fv *FuncVC) assumeInvariants(lx *loopCtx, st *State) {
	for _, ai := range lx.autoInv {
		fv.addFact(st, ai.term(st))
	}
	if lx.lc == nil || fv.mode != "full" {
		return
	}
	for _, c := range lx.lc.Invariants {
		sc := fv.specScope(st, fv.entry, false)
		sc.loopPre = lx.pre
		fv.addFact(st, fv.specBool(c.Expr, sc))
	}
}

func (fv *FuncVC) variant(lx *loopCtx, st *State) (string, bool) {
	if lx.lc == nil || lx.lc.Decreases == nil || fv.mode != "full" {
		return "", false
	}
	v := fv.specEval(lx.lc.Decreases.Expr, fv.specScope(st, fv.entry, false))
	return v.T, true
}

type loopSpec struct {
	lx       *loopCtx
	label    string
	pos      token.Pos
	vars     []types.Object
	prepHead func(head *State)
	// body evaluates the loop condition, runs one iteration (including the post statement) and
	// returns the state at the end of the iteration and the state in which the loop exits normally.
	body func(s *State, f *jumpFrame) (end, exit *State)
}

var bangNum = regexp.MustCompile(`!(\d+)`)

// stableTerm: the term mentions no constant created after mark (it denotes the same value in
// every iteration).
func stableTerm(t string, mark int) bool {
	if strings.Contains(t, "?") {
		return false
	}
	for _, m := range bangNum.FindAllStringSubmatch(t, -1) {
		n, _ := strconv.Atoi(m[1])
		if n > mark {
			return false
		}
	}
	return true
}

// runLoop is the loop rule: invariants hold on entry; an arbitrary iteration starts from a state in
// which the assigned variables and the written heap locations are unknown but the invariants hold;
// the invariants hold again after the iteration.
//
// Frame inferred per heap from the store log of one symbolic iteration (sound by construction):
// objects allocated before the loop and never the target of a store keep their contents.
func (fv *FuncVC) runLoop(ls *loopSpec, st *State) *State {
	lx := ls.lx
	fv.curPos = ls.pos
	lx.pre = st.clone()
	fv.checkInvariants(lx, st, "init")
	if st.dead() {
		return st
	}
	mark := fv.th.fresh
	head := st.clone()
	known := make([]string, 0, len(fv.heapSort))
	for h := range fv.heapSort {
		known = append(known, h)
	}
	sort.Strings(known)
	pre := map[string]string{}
	for _, h := range known {
		pre[h] = fv.getHeap(st, h)
		head.heaps[h] = fv.th.freshConst(sanitize(h)+"$head", fv.heapSort[h])
	}
	// the variables assigned by the loop are unknown at the head of an arbitrary iteration; what they point to is
	// allocated in the heap OF THAT ITERATION (it may have been allocated by an earlier iteration, not before the loop)
	for _, o := range ls.vars {
		if _, ok := head.vars[o]; ok {
			head.vars[o] = fv.havocVal(head, o.Name(), o.Type())
		}
	}
	if ls.prepHead != nil {
		ls.prepHead(head)
	}
	// one symbolic iteration, discarded, to learn what the loop writes
	snap := fv.snapshot()
	logStart := len(fv.storeLog)
	wasDry, savedStates := fv.dry.on, fv.dry.states
	fv.dry.on, fv.dry.states = true, nil
	dframe := &jumpFrame{isLoop: true, label: ls.label}
	fv.frames = append(fv.frames, dframe)
	ls.body(head.clone(), dframe)
	fv.dry.on, fv.dry.states = wasDry, savedStates
	log := append([]storeRec(nil), fv.storeLog[logStart:]...)
	fv.storeLog = fv.storeLog[:logStart]
	fv.restore(snap)

	all := false
	byHeap := map[string][]string{}
	for _, r := range log {
		if r.heap == "*" {
			all = true
			continue
		}
		byHeap[r.heap] = append(byHeap[r.heap], r.ref)
	}
	// heaps first declared during the iteration
	var newHeaps []string
	for h := range fv.heapSort {
		if _, ok := pre[h]; !ok {
			newHeaps = append(newHeaps, h)
		}
	}
	sort.Strings(newHeaps)
	for _, h := range newHeaps {
		if len(byHeap[h]) == 0 && !all {
			continue // only read: materialises lazily to the pre-loop value
		}
		pre[h] = fv.getHeap(st, h)
		head.heaps[h] = fv.th.freshConst(sanitize(h)+"$head", fv.heapSort[h])
		known = append(known, h)
	}
	allocPre := pre["alloc"]
	fv.addFact(head, "(not (select "+head.heaps["alloc"]+" nil))") // nil is never allocated
	for _, h := range known {
		H := head.heaps[h]
		recs := byHeap[h]
		if all && fv.preservesAnalysisNodes() && isAnalysisNodeHeap(h) && len(recs) == 0 {
			fv.addFact(head, mkEq(H, pre[h]))
			head.heaps[h] = pre[h]
			continue
		}
		if all {
			if h == "alloc" {
				fv.addFact(head, fmt.Sprintf("(forall ((r Ref)) (! (=> (select %s r) (select %s r)) :pattern ((select %s r)) :pattern ((select %s r))))", pre[h], H, pre[h], H))
			}
			continue
		}
		if len(recs) == 0 {
			// not written by the loop: the head state simply keeps the pre-loop term (fewer symbols for the solver);
			// the equation is kept for terms that already mention the placeholder
			fv.addFact(head, mkEq(H, pre[h]))
			head.heaps[h] = pre[h]
			for hh, rr := range byHeap {
				for i := range rr {
					rr[i] = strings.ReplaceAll(rr[i], H, pre[h])
				}
				byHeap[hh] = rr
			}
			continue
		}
		framable := true
		if h == "alloc" {
			framable = false // the allocated set only grows: stated as such (usable in both directions)
		}
		var W []string
		seen := map[string]bool{}
		for _, r := range recs {
			if r == "*" {
				framable = false
				break
			}
			if fv.freshRefs[r] && !stableTerm(r, mark) {
				continue // allocated inside the iteration
			}
			if !stableTerm(r, mark) {
				framable = false
				break
			}
			if !seen[r] {
				seen[r] = true
				W = append(W, r)
			}
		}
		if !framable {
			if h == "alloc" {
				fv.addFact(head, fmt.Sprintf("(forall ((r Ref)) (! (=> (select %s r) (select %s r)) :pattern ((select %s r)) :pattern ((select %s r))))", pre[h], H, pre[h], H))
			}
			continue
		}
		conds := []string{sx("select", allocPre, "r")}
		for _, w := range W {
			conds = append(conds, mkNot(mkEq("r", w)))
		}
		fv.addFact(head, fmt.Sprintf("(forall ((r Ref)) (! (=> %s (= (select %s r) (select %s r))) :pattern ((select %s r))))", mkAnd(conds...), H, pre[h], H))
	}
	fv.assumeInvariants(lx, head)
	v0, hasVar := fv.variant(lx, head)

	frame := &jumpFrame{label: ls.label, isLoop: true}
	fv.frames = append(fv.frames, frame)
	end, exit := ls.body(head.clone(), frame)
	fv.curPos = ls.pos
	lx.head = head
	if lx.lc != nil && fv.mode == "full" && !end.dead() {
		for i, c := range lx.lc.EndAsserts {
			sc := fv.specScope(end, fv.entry, false)
			sc.loopPre, sc.loopHead = lx.pre, head
			g := fv.specBool(c.Expr, sc)
			fv.oblig(end, "inv", fmt.Sprintf("endassert:%d:%d", lx.ord, i+1), c.Text, g)
			fv.addFact(end, g)
		}
	}
	fv.checkInvariants(lx, end, "pres")
	if hasVar && !end.dead() {
		v1, _ := fv.variant(lx, end)
		fv.oblig(end, "dec", fmt.Sprintf("dec:%d", lx.ord), lx.lc.Decreases.Text, mkAnd(sx("<=", "0", v0), sx("<", v1, v0)))
	}
	fv.frames = fv.frames[:len(fv.frames)-1]
	outs := append([]*State{exit}, frame.breaks...)
	return fv.nameGuard(fv.merge(outs))
}

func (fv *FuncVC) execFor(x *ast.ForStmt, st *State) *State {
	if x.Init != nil {
		st = fv.exec(x.Init, st)
	}
	fv.loopOrd++
	lx := &loopCtx{ord: fv.loopOrd, lc: fv.loopContract(fv.loopOrd, x)}
	label := fv.pendingLabel
	fv.pendingLabel = ""

	// auto invariant: for i := e0; ...; i++ with i not assigned in the body:  e0 <= i  (checked like any other)
	if as, ok := x.Init.(*ast.AssignStmt); ok && as.Tok == token.DEFINE && len(as.Lhs) == 1 {
		if id, ok := as.Lhs[0].(*ast.Ident); ok {
			if inc, ok := x.Post.(*ast.IncDecStmt); ok && inc.Tok == token.INC {
				if pid, ok := inc.X.(*ast.Ident); ok && fv.info.ObjectOf(pid) == fv.info.ObjectOf(id) {
					o := fv.info.ObjectOf(id)
					assignedInBody := false
					for _, a := range assignedVars(fv.info, x.Body) {
						if a == o {
							assignedInBody = true
						}
					}
					if !assignedInBody {
						if v0, ok := st.vars[o]; ok {
							start := v0.T
							lx.autoInv = append(lx.autoInv, autoInv{
								text: fmt.Sprintf("%s >= (its initial value)", id.Name),
								term: func(s *State) string { return sx("<=", start, s.vars[o].T) },
							})
						}
					}
				}
			}
		}
	}
	vars := assignedVars(fv.info, x.Body)
	if x.Post != nil {
		vars = append(vars, assignedVars(fv.info, x.Post)...)
	}
	ls := &loopSpec{lx: lx, label: label, pos: x.Pos(), vars: vars}
	ls.body = func(s *State, f *jumpFrame) (*State, *State) {
		exit := fv.deadState()
		if x.Cond != nil {
			c := fv.eval(x.Cond, s)
			exit = s.withGuard(mkNot(c.T))
			s = s.withGuard(c.T)
		}
		s = fv.execBlock(x.Body.List, s)
		m := fv.merge(append([]*State{s}, f.continues...))
		f.continues = nil
		if x.Post != nil && !m.dead() {
			m = fv.exec(x.Post, m)
		}
		return m, exit
	}
	return fv.runLoop(ls, st)
}

func (fv *FuncVC) bindRangeVar(e ast.Expr, define bool, v Val, st *State) {
	if e == nil {
		return
	}
	id, ok := e.(*ast.Ident)
	if ok && id.Name == "_" {
		return
	}
	if ok {
		if o := fv.info.ObjectOf(id); o != nil {
			st.vars[o] = Val{v.T, v.S, o.Type()}
			return
		}
	}
	fv.assignTo(e, v, st)
}

func (fv *FuncVC) execRange(x *ast.RangeStmt, st *State) *State {
	fv.loopOrd++
	lx := &loopCtx{ord: fv.loopOrd, lc: fv.loopContract(fv.loopOrd, x)}
	label := fv.pendingLabel
	fv.pendingLabel = ""
	xt := types.Unalias(fv.typeOf(x.X))
	define := x.Tok == token.DEFINE

	vars := assignedVars(fv.info, x.Body)
	if !define {
		vars = append(vars, assignedVars(fv.info, x)...)
	}
	it := types.Typ[types.Int]

	switch u := xt.Underlying().(type) {
	case *types.Slice, *types.Array, *types.Basic:
		isInt := false
		if b, ok := u.(*types.Basic); ok {
			if b.Info()&types.IsInteger != 0 {
				isInt = true
			} else {
				// range over string decodes runes: outside the subset
				fv.note("range over string %s", fv.text(x.X))
				return fv.abstractLoop(x, x.Body, vars, st)
			}
		}
		coll := fv.eval(x.X, st)
		coll = fv.named(coll, "rangeover")
		var n string
		if isInt {
			n = coll.T
		} else {
			n = sx("sl_len", coll.T)
		}
		idxName := fmt.Sprintf("idx%d", lx.ord)
		if lx.lc != nil && lx.lc.Index != "" {
			idxName = lx.lc.Index
		}
		st.ghosts[idxName] = Val{"0", SInt, it}
		if lx.lc != nil && lx.lc.Coll != "" {
			st.ghosts[lx.lc.Coll] = coll // the ranged expression is evaluated once: give it a name for the invariants
		}
		ls := &loopSpec{lx: lx, label: label, pos: x.Pos(), vars: vars}
		ls.prepHead = func(head *State) {
			idx := fv.th.freshConst(idxName, SInt)
			head.ghosts[idxName] = Val{idx, SInt, it}
			// the hidden index always stays within [0, n]: sound by construction of range loops
			fv.addFact(head, mkAnd(sx("<=", "0", idx), sx("<=", idx, n)))
		}
		ls.body = func(s *State, f *jumpFrame) (*State, *State) {
			idx := s.ghosts[idxName]
			exit := s.withGuard(mkNot(sx("<", idx.T, n)))
			s = s.withGuard(sx("<", idx.T, n))
			fv.bindRangeVar(x.Key, define, idx, s)
			if x.Value != nil && !isInt {
				fv.bindRangeVar(x.Value, define, fv.readElem(coll, idx.T, s), s)
			}
			s = fv.execBlock(x.Body.List, s)
			m := fv.merge(append([]*State{s}, f.continues...))
			f.continues = nil
			if !m.dead() {
				m.ghosts[idxName] = Val{sx("+", idx.T, "1"), SInt, it}
			}
			return m, exit
		}
		out := fv.runLoop(ls, st)
		return out
	case *types.Map:
		m := fv.eval(x.X, st)
		m = fv.named(m, "rangeover")
		ks, vs := fv.th.sortOf(u.Key()), fv.th.sortOf(u.Elem())
		d, vh, _ := fv.declMapHeaps(ks, vs)
		visName := fmt.Sprintf("visited%d", lx.ord)
		if lx.lc != nil && lx.lc.Visited != "" {
			visName = lx.lc.Visited
		}
		visSort := arraySort(ks, SBoolS)
		visGo := types.NewMap(u.Key(), types.Typ[types.Bool])
		st.ghosts[visName] = Val{fv.th.constArr(ks, SBoolS, "false"), visSort, visGo}
		if lx.lc != nil && lx.lc.Coll != "" {
			st.ghosts[lx.lc.Coll] = m // the ranged map is evaluated once: give it a name for the invariants
		}
		ls := &loopSpec{lx: lx, label: label, pos: x.Pos(), vars: vars}
		ls.prepHead = func(head *State) {
			vis := fv.th.freshConst(visName, visSort)
			head.ghosts[visName] = Val{vis, visSort, visGo}
		}
		mutated := false
		ls.body = func(s *State, f *jumpFrame) (*State, *State) {
			vis := s.ghosts[visName]
			D0 := fv.getHeap(s, d)
			dom := sx("select", D0, m.T)
			// visited ⊆ domain
			fv.addFact(s, fmt.Sprintf("(forall ((k %s)) (! (=> (select %s k) (select %s k)) :pattern ((select %s k))))", ks, vis.T, dom, vis.T))
			k := fv.th.freshConst("key", ks)
			more := fv.th.freshConst("more", SBoolS)
			fv.addFact(s, mkImp(more, mkAnd(mkNot(mkEq(m.T, "nil")), sx("select", dom, k), mkNot(sx("select", vis.T, k)))))
			fv.addFact(s, mkImp(mkNot(more), mkOr(mkEq(m.T, "nil"),
				fmt.Sprintf("(forall ((k %s)) (! (=> (select %s k) (select %s k)) :pattern ((select %s k))))", ks, dom, vis.T, dom))))
			exit := s.withGuard(mkNot(more))
			s = s.withGuard(more)
			kv := Val{k, ks, u.Key()}
			fv.valueFacts(s, kv)
			fv.bindRangeVar(x.Key, define, kv, s)
			if x.Value != nil {
				vv := Val{sx("select", sx("select", fv.getHeap(s, vh), m.T), k), vs, u.Elem()}
				fv.valueFacts(s, vv)
				fv.bindRangeVar(x.Value, define, vv, s)
			}
			s = fv.execBlock(x.Body.List, s)
			mm := fv.merge(append([]*State{s}, f.continues...))
			f.continues = nil
			if !mm.dead() {
				if fv.getHeap(mm, d) != D0 {
					mutated = true
				}
				mm.ghosts[visName] = Val{sx("store", vis.T, k, "true"), visSort, visGo}
			}
			return mm, exit
		}
		out := fv.runLoop(ls, st)
		if mutated {
			// a map of the same key/value sorts is written in the body; if it is the ranged map itself the
			// iteration model is not valid
			fv.softNote("a map with the key/value types of %s is written while ranging over it", fv.text(x.X))
		}
		return out
	}
	fv.note("range over %s", xt)
	return fv.abstractLoop(x, x.Body, vars, st)
}

func (fv *FuncVC) softNote(format string, a ...interface{}) {
	msg := fmt.Sprintf(format, a...)
	for _, u := range fv.softNotes {
		if u == msg {
			return
		}
	}
	fv.softNotes = append(fv.softNotes, msg)
}

func (fv *FuncVC) readElem(coll Val, i string, st *State) Val {
	v := fv.sliceElem(coll, i, st)
	fv.valueFacts(st, v)
	return v
}

// abstractLoop: a loop outside the subset — forget everything it may change.
func (fv *FuncVC) abstractLoop(n ast.Node, body *ast.BlockStmt, vars []types.Object, st *State) *State {
	for _, o := range vars {
		if _, ok := st.vars[o]; ok {
			st.vars[o] = fv.havocVal(st, o.Name(), o.Type())
		}
	}
	fv.havocAllHeaps(st)
	// returns inside the loop are not explored: note it
	ast.Inspect(body, func(m ast.Node) bool {
		if _, ok := m.(*ast.ReturnStmt); ok {
			fv.note("return inside an abstracted loop")
		}
		return true
	})
	return st
}
