package main

import (
	"fmt"
	"go/ast"
	"go/token"
	"go/types"
	"sort"
)

type drySnapshot struct {
	nObls, nFacts  int
	counters       map[string]int
	loopOrd, ret   int
	frames         []*jumpFrame
	dry            bool
	dryStates      []*State
	nUnsupported   int
	abstracted     bool
	defers         int
}

var _ = sort.Strings

type dryInfo struct {
	on     bool
	states []*State
}

func (fv *FuncVC) snapshot() drySnapshot {
	c := map[string]int{}
	for k, v := range fv.counters {
		c[k] = v
	}
	return drySnapshot{nObls: len(fv.obls), nFacts: len(fv.facts), counters: c, loopOrd: fv.loopOrd, ret: fv.retOrd,
		frames: append([]*jumpFrame(nil), fv.frames...), defers: len(fv.defers)}
}

func (fv *FuncVC) restore(s drySnapshot) {
	fv.obls = fv.obls[:s.nObls]
	fv.facts = fv.facts[:s.nFacts]
	fv.counters = s.counters
	fv.loopOrd = s.loopOrd
	fv.retOrd = s.ret
	fv.frames = s.frames
	fv.defers = fv.defers[:s.defers]
}

// modifiedHeaps runs the loop body once from a havocked copy of st and reports which heaps
// can change (nil,true when everything may change).
func (fv *FuncVC) modifiedHeaps(st *State, run func(s *State, f *jumpFrame) *State) (map[string]bool, bool) {
	snap := fv.snapshot()
	start := st.clone()
	// materialise all known heaps so that changes are visible
	names := make([]string, 0, len(fv.heapSort))
	for h := range fv.heapSort {
		names = append(names, h)
	}
	sort.Strings(names)
	for _, h := range names {
		fv.getHeap(start, h)
	}
	wasDry := fv.dry.on
	savedStates := fv.dry.states
	fv.dry.on = true
	fv.dry.states = nil
	frame := &jumpFrame{isLoop: true}
	fv.frames = append(fv.frames, frame)
	work := start.clone()
	end := run(work, frame)
	outs := append([]*State{end}, frame.breaks...)
	outs = append(outs, frame.continues...)
	outs = append(outs, fv.dry.states...)
	fv.dry.on = wasDry
	fv.dry.states = savedStates
	fv.restore(snap)
	mod := map[string]bool{}
	all := false
	for _, o := range outs {
		if o == nil || o.dead() {
			continue
		}
		if o.epoch != start.epoch {
			all = true
		}
		for h, t := range o.heaps {
			if bt, ok := start.heaps[h]; !ok || bt != t {
				mod[h] = true
			}
		}
	}
	// heaps first declared during the dry run and changed
	return mod, all
}

func (fv *FuncVC) loopContract(ord int) *LoopContract {
	if fv.fi.Contract == nil {
		return nil
	}
	return fv.fi.Contract.Loops[ord]
}

type loopCtx struct {
	ord      int
	lc       *LoopContract
	autoInv  []autoInv
}

type autoInv struct {
	text string
	term func(st *State) string
}

// checkInvariants asserts all invariants in state st (phase = "init" / "pres").
func (fv *FuncVC) checkInvariants(lx *loopCtx, st *State, phase string) {
	for i, ai := range lx.autoInv {
		fv.oblig(st, "inv", fmt.Sprintf("inv:%d:auto%d:%s", lx.ord, i+1, phase), ai.text, ai.term(st))
	}
	if lx.lc == nil || fv.mode != "full" {
		return
	}
	for i, c := range lx.lc.Invariants {
		g := fv.specBool(c.Expr, fv.specScope(st, fv.entry, false))
		fv.oblig(st, "inv", fmt.Sprintf("inv:%d:%d:%s", lx.ord, i+1, phase), c.Text, g)
		// later invariants may rely on earlier ones
		fv.addFact(st, g)
	}
}

func (fv *FuncVC) assumeInvariants(lx *loopCtx, st *State) {
	for _, ai := range lx.autoInv {
		fv.addFact(st, ai.term(st))
	}
	if lx.lc == nil || fv.mode != "full" {
		return
	}
	for _, c := range lx.lc.Invariants {
		fv.addFact(st, fv.specBool(c.Expr, fv.specScope(st, fv.entry, false)))
	}
}

// havocLoopTargets forgets the variables and heaps the loop may change.
func (fv *FuncVC) havocLoopTargets(st *State, vars []types.Object, mod map[string]bool, all bool) {
	for _, o := range vars {
		if _, ok := st.vars[o]; ok {
			st.vars[o] = fv.havocVal(st, o.Name(), o.Type())
		}
	}
	if all {
		fv.havocAllHeaps(st)
		return
	}
	names := make([]string, 0, len(mod))
	for h := range mod {
		names = append(names, h)
	}
	sort.Strings(names)
	for _, h := range names {
		fv.havocHeap(st, h)
	}
}

func (fv *FuncVC) variant(lx *loopCtx, st *State) (string, bool) {
	if lx.lc == nil || lx.lc.Decreases == nil || fv.mode != "full" {
		return "", false
	}
	v := fv.specEval(lx.lc.Decreases.Expr, fv.specScope(st, fv.entry, false))
	return v.T, true
}

func (fv *FuncVC) execFor(x *ast.ForStmt, st *State) *State {
	if x.Init != nil {
		st = fv.exec(x.Init, st)
	}
	fv.loopOrd++
	lx := &loopCtx{ord: fv.loopOrd, lc: fv.loopContract(fv.loopOrd)}
	label := fv.pendingLabel
	fv.pendingLabel = ""

	// auto invariant: for i := e0; ...; i++ with i not assigned in the body:  e0 <= i
	if as, ok := x.Init.(*ast.AssignStmt); ok && as.Tok == token.DEFINE && len(as.Lhs) == 1 {
		if id, ok := as.Lhs[0].(*ast.Ident); ok {
			if inc, ok := x.Post.(*ast.IncDecStmt); ok && inc.Tok == token.INC {
				if pid, ok := inc.X.(*ast.Ident); ok && fv.info.ObjectOf(pid) == fv.info.ObjectOf(id) {
					o := fv.info.ObjectOf(id)
					assignedInBody := false
					for _, a := range assignedVars(fv.info, x.Body) {
						if a == o {
							assignedInBody = true
						}
					}
					if !assignedInBody {
						if v0, ok := st.vars[o]; ok {
							start := v0.T
							lx.autoInv = append(lx.autoInv, autoInv{
								text: fmt.Sprintf("%s >= (initial value)", id.Name),
								term: func(s *State) string { return sx("<=", start, s.vars[o].T) },
							})
						}
					}
				}
			}
		}
	}

	runBody := func(s *State, f *jumpFrame) *State {
		if x.Cond != nil {
			c := fv.eval(x.Cond, s)
			s = s.withGuard(c.T)
		}
		s = fv.execBlock(x.Body.List, s)
		m := fv.merge(append([]*State{s}, f.continues...))
		f.continues = nil
		if x.Post != nil && !m.dead() {
			m = fv.exec(x.Post, m)
		}
		return m
	}
	var loopNode ast.Node = x.Body
	vars := assignedVars(fv.info, loopNode)
	if x.Post != nil {
		vars = append(vars, assignedVars(fv.info, x.Post)...)
	}
	mod, all := fv.modifiedHeaps(fv.havocCopy(st, vars), runBody)

	fv.curPos = x.Pos()
	fv.checkInvariants(lx, st, "init")
	head := st.clone()
	fv.havocLoopTargets(head, vars, mod, all)
	fv.assumeInvariants(lx, head)
	v0, hasVar := fv.variant(lx, head)

	frame := &jumpFrame{label: label, isLoop: true}
	fv.frames = append(fv.frames, frame)
	var condT string = "true"
	bodySt := head.clone()
	if x.Cond != nil {
		c := fv.eval(x.Cond, bodySt)
		condT = c.T
		// the condition may have had side effects on bodySt (calls); exit state shares them
		head = bodySt.clone()
		bodySt = bodySt.withGuard(condT)
	}
	end := fv.execBlock(x.Body.List, bodySt)
	m := fv.merge(append([]*State{end}, frame.continues...))
	if x.Post != nil && !m.dead() {
		m = fv.exec(x.Post, m)
	}
	fv.curPos = x.Pos()
	fv.checkInvariants(lx, m, "pres")
	if hasVar && !m.dead() {
		v1, _ := fv.variant(lx, m)
		fv.oblig(m, "dec", fmt.Sprintf("dec:%d", lx.ord), lx.lc.Decreases.Text, mkAnd(sx("<=", "0", v0), sx("<", v1, v0)))
	}
	fv.frames = fv.frames[:len(fv.frames)-1]
	exit := head.withGuard(mkNot(condT))
	if x.Cond == nil {
		exit = fv.deadState()
	}
	return fv.nameGuard(fv.merge(append([]*State{exit}, frame.breaks...)))
}

// havocCopy: a copy of st with the given variables havocked (used by the dry run).
func (fv *FuncVC) havocCopy(st *State, vars []types.Object) *State {
	c := st.clone()
	for _, o := range vars {
		if _, ok := c.vars[o]; ok {
			c.vars[o] = fv.havocVal(c, o.Name(), o.Type())
		}
	}
	return c
}

func (fv *FuncVC) bindRangeVar(e ast.Expr, define bool, v Val, st *State) {
	if e == nil {
		return
	}
	id, ok := e.(*ast.Ident)
	if ok && id.Name == "_" {
		return
	}
	if ok {
		if o := fv.info.ObjectOf(id); o != nil {
			st.vars[o] = Val{v.T, v.S, o.Type()}
			return
		}
	}
	fv.assignTo(e, v, st)
}

func (fv *FuncVC) execRange(x *ast.RangeStmt, st *State) *State {
	fv.loopOrd++
	lx := &loopCtx{ord: fv.loopOrd, lc: fv.loopContract(fv.loopOrd)}
	label := fv.pendingLabel
	fv.pendingLabel = ""
	xt := types.Unalias(fv.typeOf(x.X))
	define := x.Tok == token.DEFINE

	vars := assignedVars(fv.info, x.Body)
	if !define {
		vars = append(vars, assignedVars(fv.info, x)...)
	}

	switch u := xt.Underlying().(type) {
	case *types.Slice, *types.Array, *types.Basic:
		isInt := false
		if b, ok := u.(*types.Basic); ok {
			if b.Info()&types.IsInteger != 0 {
				isInt = true
			} else {
				// range over string decodes runes: outside the subset
				fv.note("range over string %s", fv.text(x.X))
				return fv.abstractLoop(x, x.Body, vars, st)
			}
		}
		coll := fv.eval(x.X, st)
		var n string
		if isInt {
			n = coll.T
		} else {
			n = sx("sl_len", coll.T)
		}
		idxName := fmt.Sprintf("idx%d", lx.ord)
		if lx.lc != nil && lx.lc.Index != "" {
			idxName = lx.lc.Index
		}
		st.ghosts[idxName] = Val{"0", SInt, types.Typ[types.Int]}
		runBody := func(s *State, f *jumpFrame) *State {
			idx := s.ghosts[idxName]
			s = s.withGuard(sx("<", idx.T, n))
			fv.bindRangeVar(x.Key, define, idx, s)
			if x.Value != nil && !isInt {
				fv.bindRangeVar(x.Value, define, fv.readElem(coll, idx.T, s), s)
			}
			s = fv.execBlock(x.Body.List, s)
			m := fv.merge(append([]*State{s}, f.continues...))
			f.continues = nil
			if !m.dead() {
				m.ghosts[idxName] = Val{sx("+", idx.T, "1"), SInt, types.Typ[types.Int]}
			}
			return m
		}
		dryStart := fv.havocCopy(st, vars)
		dryStart.ghosts[idxName] = Val{fv.th.freshConst(idxName, SInt), SInt, types.Typ[types.Int]}
		mod, all := fv.modifiedHeaps(dryStart, runBody)

		fv.curPos = x.Pos()
		fv.checkInvariants(lx, st, "init")
		head := st.clone()
		fv.havocLoopTargets(head, vars, mod, all)
		idx := fv.th.freshConst(idxName, SInt)
		head.ghosts[idxName] = Val{idx, SInt, types.Typ[types.Int]}
		// the hidden index always stays within [0, n]: sound by construction of range loops
		fv.addFact(head, mkAnd(sx("<=", "0", idx), sx("<=", idx, n)))
		fv.assumeInvariants(lx, head)
		v0, hasVar := fv.variant(lx, head)
		frame := &jumpFrame{label: label, isLoop: true}
		fv.frames = append(fv.frames, frame)
		m := runBody(head.clone(), frame)
		fv.curPos = x.Pos()
		fv.checkInvariants(lx, m, "pres")
		if hasVar && !m.dead() {
			v1, _ := fv.variant(lx, m)
			fv.oblig(m, "dec", fmt.Sprintf("dec:%d", lx.ord), lx.lc.Decreases.Text, mkAnd(sx("<=", "0", v0), sx("<", v1, v0)))
		}
		fv.frames = fv.frames[:len(fv.frames)-1]
		exit := head.withGuard(mkNot(sx("<", idx, n)))
		out := fv.nameGuard(fv.merge(append([]*State{exit}, frame.breaks...)))
		return out
	case *types.Map:
		m := fv.eval(x.X, st)
		ks, vs := fv.th.sortOf(u.Key()), fv.th.sortOf(u.Elem())
		d, vh, _ := fv.declMapHeaps(ks, vs)
		visName := fmt.Sprintf("visited%d", lx.ord)
		if lx.lc != nil && lx.lc.Visited != "" {
			visName = lx.lc.Visited
		}
		visSort := arraySort(ks, SBoolS)
		visGo := types.NewMap(u.Key(), types.Typ[types.Bool])
		st.ghosts[visName] = Val{fmt.Sprintf("((as const %s) false)", visSort), visSort, visGo}
		runBody := func(s *State, f *jumpFrame) *State {
			vis := s.ghosts[visName]
			dom := sx("select", fv.getHeap(s, d), m.T)
			k := fv.th.freshConst("key", ks)
			more := fv.th.freshConst("more", SBoolS)
			fv.addFact(s, mkImp(more, mkAnd(mkNot(mkEq(m.T, "nil")), sx("select", dom, k), mkNot(sx("select", vis.T, k)))))
			fv.addFact(s, mkImp(mkNot(more), mkOr(mkEq(m.T, "nil"),
				fmt.Sprintf("(forall ((k %s)) (! (=> (select %s k) (select %s k)) :pattern ((select %s k))))", ks, dom, vis.T, dom))))
			s.ghosts["$more"] = Val{more, SBoolS, nil}
			s = s.withGuard(more)
			kv := Val{k, ks, u.Key()}
			fv.valueFacts(s, kv)
			fv.bindRangeVar(x.Key, define, kv, s)
			if x.Value != nil {
				vv := Val{sx("select", sx("select", fv.getHeap(s, vh), m.T), k), vs, u.Elem()}
				fv.valueFacts(s, vv)
				fv.bindRangeVar(x.Value, define, vv, s)
			}
			s = fv.execBlock(x.Body.List, s)
			mm := fv.merge(append([]*State{s}, f.continues...))
			f.continues = nil
			if !mm.dead() {
				mm.ghosts[visName] = Val{sx("store", vis.T, k, "true"), visSort, visGo}
			}
			return mm
		}
		dryStart := fv.havocCopy(st, vars)
		dryStart.ghosts[visName] = Val{fv.th.freshConst(visName, visSort), visSort, visGo}
		mod, all := fv.modifiedHeaps(dryStart, runBody)
		if mod[d] {
			fv.note("map mutated while ranging over it (%s)", fv.text(x.X))
		}
		fv.curPos = x.Pos()
		fv.checkInvariants(lx, st, "init")
		head := st.clone()
		fv.havocLoopTargets(head, vars, mod, all)
		vis := fv.th.freshConst(visName, visSort)
		head.ghosts[visName] = Val{vis, visSort, visGo}
		dom := sx("select", fv.getHeap(head, d), m.T)
		fv.addFact(head, fmt.Sprintf("(forall ((k %s)) (! (=> (select %s k) (select %s k)) :pattern ((select %s k))))", ks, vis, dom, vis))
		fv.assumeInvariants(lx, head)
		frame := &jumpFrame{label: label, isLoop: true}
		fv.frames = append(fv.frames, frame)
		work := head.clone()
		mm := runBody(work, frame)
		more := work.ghosts["$more"].T
		fv.curPos = x.Pos()
		fv.checkInvariants(lx, mm, "pres")
		fv.frames = fv.frames[:len(fv.frames)-1]
		exit := head.clone()
		exit.heaps = work.heaps // heaps materialised while evaluating the head
		exit = exit.withGuard(mkNot(more))
		return fv.nameGuard(fv.merge(append([]*State{exit}, frame.breaks...)))
	}
	fv.note("range over %s", xt)
	return fv.abstractLoop(x, x.Body, vars, st)
}

func (fv *FuncVC) readElem(coll Val, i string, st *State) Val {
	v := fv.sliceElem(coll, i, st)
	fv.valueFacts(st, v)
	return v
}

// abstractLoop: a loop outside the subset — forget everything it may change.
func (fv *FuncVC) abstractLoop(n ast.Node, body *ast.BlockStmt, vars []types.Object, st *State) *State {
	for _, o := range vars {
		if _, ok := st.vars[o]; ok {
			st.vars[o] = fv.havocVal(st, o.Name(), o.Type())
		}
	}
	fv.havocAllHeaps(st)
	// returns inside the loop are not explored: note it
	ast.Inspect(body, func(m ast.Node) bool {
		if _, ok := m.(*ast.ReturnStmt); ok {
			fv.note("return inside an abstracted loop")
		}
		return true
	})
	return st
}
