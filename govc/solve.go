package main

import (
	"context"
	"fmt"
	"os"
	"os/exec"
	"path/filepath"
	"strings"
	"sync"
	"time"
)

type solverDef struct {
	Name string
	Cmd  func(file string, timeoutS int) []string
	Prep func(q string) string
}

var solvers = []solverDef{
	{"z3-new", func(f string, t int) []string { return []string{"z3-new", fmt.Sprintf("-T:%d", t), f} }, nil},
	{"z3", func(f string, t int) []string { return []string{"z3", fmt.Sprintf("-T:%d", t), f} }, nil},
	{"cvc5", func(f string, t int) []string {
		return []string{"cvc5", "--incremental", fmt.Sprintf("--tlimit=%d", t*1000), f}
	}, nil},
}

const maxVCBytes = 1 << 20 // 1 MiB cap per query

type solveOpts struct {
	TimeoutS int
	All      bool // collect the answer of every solver (thorough)
	OutDir   string
	Jobs     int
}

// solveOne races the solvers on one obligation.
func solveOne(o *Obligation, opts solveOpts) {
	if o.Preset {
		return
	}
	q := o.smt()
	o.Bytes = len(q)
	if len(q) > maxVCBytes {
		o.Result = "error"
		o.Solver = "size-cap"
		return
	}
	if o.Goal == "true" && !o.ExpectSat {
		o.Result = "unsat"
		o.Solver = "trivial"
		return
	}
	dir := opts.OutDir
	os.MkdirAll(dir, 0o755)
	fn := filepath.Join(dir, sanitizeFile(o.Name)+".smt2")
	if err := os.WriteFile(fn, []byte(q), 0o644); err != nil {
		o.Result = "error"
		o.Solver = err.Error()
		return
	}
	type ans struct {
		solver string
		res    string
		out    string
		t      float64
	}
	ctx, cancel := context.WithCancel(context.Background())
	defer cancel()
	ch := make(chan ans, len(solvers))
	for _, s := range solvers {
		go func(s solverDef) {
			start := time.Now()
			args := s.Cmd(fn, opts.TimeoutS)
			c, cc := context.WithTimeout(ctx, time.Duration(opts.TimeoutS+2)*time.Second)
			defer cc()
			cmd := exec.CommandContext(c, args[0], args[1:]...)
			out, _ := cmd.CombinedOutput()
			first := strings.TrimSpace(strings.SplitN(strings.TrimSpace(string(out)), "\n", 2)[0])
			res := "unknown"
			switch {
			case first == "unsat":
				res = "unsat"
			case first == "sat":
				res = "sat"
			case strings.Contains(first, "timeout") || c.Err() != nil:
				res = "timeout"
			case strings.HasPrefix(first, "(error") || strings.Contains(string(out), "(error"):
				res = "error"
			}
			ch <- ans{s.Name, res, string(out), time.Since(start).Seconds()}
		}(s)
	}
	o.AllOut = map[string]string{}
	got := 0
	o.Result = "unknown"
	for got < len(solvers) {
		a := <-ch
		got++
		o.AllOut[a.solver] = a.res + "\n" + truncate(a.out, 2000)
		definitive := a.res == "unsat" || a.res == "sat"
		if definitive && (o.Result != "unsat" && o.Result != "sat") {
			o.Result = a.res
			o.Solver = a.solver
			o.TimeS = a.t
			if a.res == "sat" {
				o.Model = a.out
			}
			if !opts.All {
				cancel()
				break
			}
		} else if definitive && a.res != o.Result {
			o.Result = "disagree"
		} else if !definitive && o.Result == "unknown" && a.res == "timeout" {
			o.Result = "timeout"
			o.TimeS = a.t
		} else if !definitive && a.res == "error" && o.Result == "unknown" {
			o.Solver = "error:" + a.solver
		}
	}
	if o.Result == "unsat" && os.Getenv("GOVC_KEEP") == "" {
		os.Remove(fn) // keep only the interesting queries on disk
	}
}

func truncate(s string, n int) string {
	if len(s) > n {
		return s[:n] + "…"
	}
	return s
}

func sanitizeFile(s string) string {
	s = strings.TrimPrefix(s, repoModule+"/")
	r := strings.NewReplacer("/", "_", "(", "", ")", "", "*", "p", "#", "--", ":", "-", "@", "_at_", " ", "_")
	return r.Replace(s)
}

func solveAll(obls []*Obligation, opts solveOpts) {
	jobs := opts.Jobs
	if jobs <= 0 {
		jobs = 5
	}
	sem := make(chan struct{}, jobs)
	var wg sync.WaitGroup
	for _, o := range obls {
		wg.Add(1)
		sem <- struct{}{}
		go func(o *Obligation) {
			defer wg.Done()
			defer func() { <-sem }()
			solveOne(o, opts)
		}(o)
	}
	wg.Wait()
}

// solveRobust: obligations that are not discharged on the first (highly parallel) pass are tried again, a few at
// a time and with a doubled timeout, so that a loaded machine does not turn into spurious alarms.
func solveRobust(obls []*Obligation, opts solveOpts) {
	solveAll(obls, opts)
	var again []*Obligation
	for _, o := range obls {
		if o.Preset || o.ExpectSat || o.Result == "unsat" || o.Result == "sat" {
			continue
		}
		o.Result = ""
		again = append(again, o)
	}
	if len(again) == 0 {
		return
	}
	r := opts
	r.Jobs = 3
	r.TimeoutS = opts.TimeoutS * 2
	solveAll(again, r)
}

// ok reports whether the obligation is in its expected state.
func (o *Obligation) ok() bool {
	if o.ExpectSat {
		// cover obligations: must NOT be unsat (sat or unknown are both fine: not vacuous)
		return o.Result != "unsat"
	}
	return o.Result == "unsat"
}
