module govc

go 1.23.0

require golang.org/x/tools v0.31.0

require (
	golang.org/x/mod v0.24.0 // indirect
	golang.org/x/sync v0.12.0 // indirect
)
