package main

import (
	"strconv"
	"fmt"
	"go/ast"
	"go/constant"
	"go/token"
	"go/types"
	"strings"
)

func (fv *FuncVC) typeOf(e ast.Expr) types.Type {
	if tv, ok := fv.info.Types[e]; ok && tv.Type != nil {
		return tv.Type
	}
	if id, ok := e.(*ast.Ident); ok {
		if o := fv.info.ObjectOf(id); o != nil {
			return o.Type()
		}
	}
	return types.Typ[types.Invalid]
}

func exprText(fset *token.FileSet, e ast.Node) string {
	var b strings.Builder
	_ = printerFprint(&b, fset, e)
	s := b.String()
	s = strings.Join(strings.Fields(s), " ")
	if len(s) > 120 {
		s = s[:117] + "..."
	}
	return s
}

func (fv *FuncVC) text(e ast.Node) string { return exprText(fv.w.Fset, e) }

// constVal converts a go/constant value to a symbolic value.
func (fv *FuncVC) constVal(cv constant.Value, t types.Type) (Val, bool) {
	s := fv.th.sortOf(t)
	switch cv.Kind() {
	case constant.Bool:
		if constant.BoolVal(cv) {
			return Val{"true", SBoolS, t}, true
		}
		return Val{"false", SBoolS, t}, true
	case constant.String:
		return Val{fv.th.strLit(constant.StringVal(cv)), SStr, t}, true
	case constant.Int:
		if s == SInt {
			return Val{intLitStr(cv.ExactString()), SInt, t}, true
		}
		if s == "Real" {
			return Val{intLitStr(cv.ExactString()) + ".0", "Real", t}, true
		}
	case constant.Float:
		if s == "Real" {
			// not modelled precisely
			return Val{fv.th.freshConst("float", "Real"), "Real", t}, true
		}
	}
	return Val{}, false
}

// eval evaluates a Go expression in state st (may emit obligations and update st).
func (fv *FuncVC) eval(e ast.Expr, st *State) Val {
	if e != nil && e.Pos().IsValid() {
		fv.curPos = e.Pos()
	}
	if tv, ok := fv.info.Types[e]; ok && tv.Value != nil {
		if v, ok := fv.constVal(tv.Value, tv.Type); ok {
			return v
		}
	}
	switch x := e.(type) {
	case *ast.ParenExpr:
		return fv.eval(x.X, st)
	case *ast.Ident:
		return fv.evalIdent(x, st)
	case *ast.BasicLit:
		fv.note("literal %s", x.Value)
		return fv.havocVal(st, "lit", fv.typeOf(e))
	case *ast.UnaryExpr:
		return fv.evalUnary(x, st)
	case *ast.BinaryExpr:
		return fv.evalBinary(x, st)
	case *ast.IndexExpr:
		return fv.evalIndex(x, st)
	case *ast.SliceExpr:
		return fv.evalSliceExpr(x, st)
	case *ast.SelectorExpr:
		return fv.evalSelector(x, st)
	case *ast.CallExpr:
		vs := fv.evalCall(x, st)
		if len(vs) == 0 {
			return Val{"nil", SRef, nil}
		}
		return vs[0]
	case *ast.CompositeLit:
		return fv.evalComposite(x, st, false)
	case *ast.StarExpr:
		p := fv.eval(x.X, st)
		fv.guardedPointee(st, x.X, p)
		return fv.deref(p, fv.typeOf(x), st, fv.text(x))
	case *ast.TypeAssertExpr:
		v, ok := fv.typeAssert(x, st)
		n := fv.nextOrd("assert")
		fv.oblig(st, "safe", fmt.Sprintf("safe:assert@%d", n), "type assertion "+fv.text(x), ok)
		fv.addFact(st, ok)
		return v
	case *ast.FuncLit:
		if !fv.inlinedClosure(x) && !fv.contractedClosure(x) {
			fv.note("function literal outside a supported higher-order call")
		}
		return fv.havocVal(st, "closure", fv.typeOf(e))
	case *ast.KeyValueExpr:
		return fv.eval(x.Value, st)
	}
	fv.note("expression %T: %s", e, fv.text(e))
	return fv.havocVal(st, "expr", fv.typeOf(e))
}

func (fv *FuncVC) evalIdent(x *ast.Ident, st *State) Val {
	obj := fv.info.ObjectOf(x)
	switch o := obj.(type) {
	case *types.Nil:
		t := fv.typeOf(x)
		if fv.th.sortOf(t) == SSlice {
			return Val{"(mk_slice nil 0)", SSlice, t}
		}
		return Val{"nil", SRef, t}
	case *types.Var:
		if v, ok := st.vars[o]; ok {
			return v
		}
		// package-level variable: an uninterpreted constant (assumed not reassigned)
		if o.Parent() != nil && o.Parent() == o.Pkg().Scope() {
			return fv.globalVar(o, st)
		}
		// captured variable or otherwise unknown
		fv.note("unbound variable %s", o.Name())
		v := fv.havocVal(st, o.Name(), o.Type())
		st.vars[o] = v
		return v
	case *types.Const:
		if v, ok := fv.constVal(o.Val(), o.Type()); ok {
			return v
		}
	case *types.Func:
		return Val{fv.th.declConst("fn$"+sanitize(o.FullName()), SRef), SRef, o.Type()}
	}
	if x.Name == "_" {
		return Val{"nil", SRef, nil}
	}
	fv.note("identifier %s", x.Name)
	return fv.havocVal(st, x.Name, fv.typeOf(x))
}

func (fv *FuncVC) globalVar(o *types.Var, st *State) Val {
	s := fv.th.sortOf(o.Type())
	name := "glob$" + sanitize(o.Pkg().Path()+"."+o.Name())
	if !fv.th.globDone[name] {
		fv.th.globDone[name] = true
		fv.th.declConst(name, s)
		// a package-level variable initialised with &T{...} (and never reassigned: assumption) is a non-nil *T
		if s == SRef {
			if init := fv.globalInit(o); init != nil {
				if u, ok := init.(*ast.UnaryExpr); ok {
					if _, isLit := u.X.(*ast.CompositeLit); isLit {
						fv.th.axioms = append(fv.th.axioms, mkNot(mkEq(name, "nil")))
						fv.th.axioms = append(fv.th.axioms, mkEq(sx("dyntype", name), intLit(int64(fv.th.tagOf(o.Type())))))
					}
				}
				// regexp.MustCompile / template.Must ... never return nil
				if c, ok := init.(*ast.CallExpr); ok {
					if se, ok := c.Fun.(*ast.SelectorExpr); ok && strings.HasPrefix(se.Sel.Name, "Must") {
						fv.th.axioms = append(fv.th.axioms, mkNot(mkEq(name, "nil")))
					}
				}
			}
		}
	}
	v := Val{name, s, o.Type()}
	return v
}

func (fv *FuncVC) evalUnary(x *ast.UnaryExpr, st *State) Val {
	switch x.Op {
	case token.NOT:
		v := fv.eval(x.X, st)
		return Val{mkNot(v.T), SBoolS, v.GoT}
	case token.SUB:
		v := fv.eval(x.X, st)
		return Val{sx("-", v.T), v.S, v.GoT}
	case token.ADD:
		return fv.eval(x.X, st)
	case token.AND:
		switch y := x.X.(type) {
		case *ast.CompositeLit:
			return fv.evalComposite(y, st, true)
		}
		fv.note("address-of %s", fv.text(x.X))
		return fv.havocVal(st, "addr", fv.typeOf(x))
	}
	fv.note("unary %s", x.Op)
	return fv.havocVal(st, "un", fv.typeOf(x))
}

func isStringType(t types.Type) bool {
	b, ok := types.Unalias(t).Underlying().(*types.Basic)
	return ok && b.Info()&types.IsString != 0
}

func (fv *FuncVC) eqVals(a, b Val) string {
	if a.S == SStr && b.S == SStr {
		return sx("streq", a.T, b.T)
	}
	if a.S == SSlice && b.S == SRef {
		return mkEq(sx("sl_ref", a.T), "nil")
	}
	if a.S == SRef && b.S == SSlice {
		return mkEq(sx("sl_ref", b.T), "nil")
	}
	if a.S == SSlice && b.S == SSlice {
		// only comparison with nil is legal Go
		if b.T == "(mk_slice nil 0)" {
			return mkEq(sx("sl_ref", a.T), "nil")
		}
		if a.T == "(mk_slice nil 0)" {
			return mkEq(sx("sl_ref", b.T), "nil")
		}
	}
	return mkEq(a.T, b.T)
}

func (fv *FuncVC) evalBinary(x *ast.BinaryExpr, st *State) Val {
	t := fv.typeOf(x)
	switch x.Op {
	case token.LAND, token.LOR:
		a := fv.eval(x.X, st)
		var sub *State
		if x.Op == token.LAND {
			sub = st.withGuard(a.T)
		} else {
			sub = st.withGuard(mkNot(a.T))
		}
		b := fv.eval(x.Y, sub)
		// side effects of the right operand (calls) are merged back
		if fv.stateChanged(st, sub) {
			var other *State
			if x.Op == token.LAND {
				other = st.withGuard(mkNot(a.T))
			} else {
				other = st.withGuard(a.T)
			}
			m := fv.merge([]*State{sub, other})
			g := st.guard
			*st = *m
			st.guard = g
		}
		if x.Op == token.LAND {
			return Val{mkAnd(a.T, b.T), SBoolS, t}
		}
		return Val{mkOr(a.T, b.T), SBoolS, t}
	}
	a := fv.eval(x.X, st)
	b := fv.eval(x.Y, st)
	// comparing an interface value with a concrete non-pointer value boxes the latter
	a, b = fv.harmonise(a, b, fv.typeOf(x.X), fv.typeOf(x.Y), st)
	switch x.Op {
	case token.EQL:
		return Val{fv.eqVals(a, b), SBoolS, t}
	case token.NEQ:
		return Val{mkNot(fv.eqVals(a, b)), SBoolS, t}
	case token.LSS, token.LEQ, token.GTR, token.GEQ:
		if a.S == SStr {
			switch x.Op {
			case token.LSS:
				return Val{sx("slt", a.T, b.T), SBoolS, t}
			case token.GTR:
				return Val{sx("slt", b.T, a.T), SBoolS, t}
			case token.LEQ:
				return Val{mkNot(sx("slt", b.T, a.T)), SBoolS, t}
			default:
				return Val{mkNot(sx("slt", a.T, b.T)), SBoolS, t}
			}
		}
		op := map[token.Token]string{token.LSS: "<", token.LEQ: "<=", token.GTR: ">", token.GEQ: ">="}[x.Op]
		return Val{sx(op, a.T, b.T), SBoolS, t}
	case token.ADD:
		if a.S == SStr {
			return Val{sx("cat", a.T, b.T), SStr, t}
		}
		return fv.arith("+", a, b, t, st)
	case token.SUB:
		return fv.arith("-", a, b, t, st)
	case token.MUL:
		return fv.arith("*", a, b, t, st)
	case token.QUO, token.REM:
		if a.S == SInt {
			n := fv.nextOrd("div")
			fv.oblig(st, "safe", fmt.Sprintf("safe:div@%d", n), "division "+fv.text(x), mkNot(mkEq(b.T, "0")))
			fv.addFact(st, mkNot(mkEq(b.T, "0")))
			if x.Op == token.QUO {
				return Val{sx("godiv", a.T, b.T), SInt, t}
			}
			return Val{sx("gomod", a.T, b.T), SInt, t}
		}
		if x.Op == token.QUO {
			return Val{sx("/", a.T, b.T), a.S, t}
		}
	case token.AND, token.OR, token.XOR, token.SHL, token.SHR, token.AND_NOT:
		// x & 2^k is exact (bit k of the two's complement representation); other bit operations are uninterpreted
		if x.Op == token.AND {
			if t, ok := bitTest(a.T, b.T); ok {
				return Val{t, SInt, fv.info.TypeOf(x)}
			}
		}
		f := fv.th.declFun("bitop$"+sanitize(x.Op.String()), []Sort{SInt, SInt}, SInt)
		return Val{sx(f, a.T, b.T), SInt, t}
	}
	fv.note("binary %s", x.Op)
	return fv.havocVal(st, "bin", t)
}

// arith: integers are mathematical; results of bounded types are assumed in range
// (machine arithmetic treated as mathematical: listed assumption).
func (fv *FuncVC) arith(op string, a, b Val, t types.Type, st *State) Val {
	return Val{sx(op, a.T, b.T), a.S, t}
}

func (fv *FuncVC) stateChanged(a, b *State) bool {
	if a.epoch != b.epoch || len(a.heaps) != len(b.heaps) {
		// materialised heaps alone are not a change
		for h, t := range b.heaps {
			if at, ok := a.heaps[h]; ok && at != t {
				return true
			}
		}
		if a.epoch != b.epoch {
			return true
		}
	}
	for h, t := range b.heaps {
		if at, ok := a.heaps[h]; ok && at != t {
			return true
		}
	}
	for o, v := range b.vars {
		if av, ok := a.vars[o]; ok && av.T != v.T {
			return true
		}
	}
	return false
}

// harmonise boxes one side when comparing interface with concrete value.
func (fv *FuncVC) harmonise(a, b Val, ta, tb types.Type, st *State) (Val, Val) {
	if ta == nil || tb == nil {
		return a, b
	}
	ia, ib := types.IsInterface(ta), types.IsInterface(tb)
	if ia && !ib && !isNilType(tb) {
		return a, fv.convertTo(b, tb, ta, st)
	}
	if ib && !ia && !isNilType(ta) {
		return fv.convertTo(a, ta, tb, st), b
	}
	return a, b
}

func isNilType(t types.Type) bool {
	b, ok := t.(*types.Basic)
	return ok && b.Kind() == types.UntypedNil
}

// convertTo handles implicit conversions (value -> interface boxing).
func (fv *FuncVC) convertTo(v Val, from, to types.Type, st *State) Val {
	if to == nil || from == nil {
		return v
	}
	if types.IsInterface(to) && !types.IsInterface(from) && !isNilType(from) {
		return fv.box(v, from, to, st)
	}
	if isNilType(from) {
		if fv.th.sortOf(to) == SSlice {
			return Val{"(mk_slice nil 0)", SSlice, to}
		}
		return Val{"nil", SRef, to}
	}
	return Val{v.T, v.S, to}
}

func (fv *FuncVC) box(v Val, from, to types.Type, st *State) Val {
	tag := fv.th.tagOf(from)
	if v.S == SRef {
		// pointer-like: the interface value is the reference itself
		if !strings.Contains(v.T, "?") { // not under a quantifier
			fv.addFact(st, mkImp(mkNot(mkEq(v.T, "nil")), mkEq(sx("dyntype", v.T), intLit(int64(tag)))))
		}
		return Val{v.T, SRef, to}
	}
	f := fmt.Sprintf("box$%s$%d", sanitize(string(v.S)), tag)
	if !fv.th.declSeen[f] {
		fv.th.declFun(f, []Sort{v.S}, SRef)
		un := fv.unboxFun(v.S)
		fv.th.axioms = append(fv.th.axioms, fmt.Sprintf("(forall ((x %s)) (! (and (not (= (%s x) nil)) (= (dyntype (%s x)) %d) (= (%s (%s x)) x)) :pattern ((%s x))))", v.S, f, f, tag, un, f, f))
	}
	return Val{sx(f, v.T), SRef, to}
}

func (fv *FuncVC) unboxFun(s Sort) string {
	return fv.th.declFun("unbox$"+sanitize(string(s)), []Sort{SRef}, s)
}

// typeTest returns the condition "interface value x holds dynamic type T" and the extracted value.
func (fv *FuncVC) typeTest(x Val, T types.Type, st *State) (string, Val) {
	if types.IsInterface(T) {
		// interface-to-interface: the dynamic type must implement T. Enumerate known implementers.
		impls := fv.implementers(T)
		var alts []string
		for _, it := range impls {
			alts = append(alts, mkEq(sx("dyntype", x.T), intLit(int64(fv.th.tagOf(it)))))
		}
		cond := mkAnd(mkNot(mkEq(x.T, "nil")), mkOr(alts...))
		return cond, Val{x.T, SRef, T}
	}
	tag := fv.th.tagOf(T)
	cond := mkAnd(mkNot(mkEq(x.T, "nil")), mkEq(sx("dyntype", x.T), intLit(int64(tag))))
	s := fv.th.sortOf(T)
	if s == SRef {
		return cond, Val{x.T, SRef, T}
	}
	return cond, Val{sx(fv.unboxFun(s), x.T), s, T}
}

// implementers enumerates the concrete named types (and pointers to them) of the loaded
// repo packages and go/types that implement interface T.
func (fv *FuncVC) implementers(T types.Type) []types.Type {
	itf, ok := T.Underlying().(*types.Interface)
	if !ok {
		return nil
	}
	var out []types.Type
	seen := map[string]bool{}
	consider := func(p *types.Package) {
		sc := p.Scope()
		for _, n := range sc.Names() {
			tn, ok := sc.Lookup(n).(*types.TypeName)
			if !ok || tn.IsAlias() {
				continue
			}
			nt, ok := tn.Type().(*types.Named)
			if !ok || nt.TypeParams().Len() > 0 {
				continue
			}
			if types.IsInterface(nt) {
				continue
			}
			for _, cand := range []types.Type{nt, types.NewPointer(nt)} {
				if types.Implements(cand, itf) {
					k := types.TypeString(cand, nil)
					if !seen[k] {
						seen[k] = true
						out = append(out, cand)
					}
					break // value type implementing => pointer too, but values are what is stored
				}
			}
		}
	}
	for _, p := range fv.w.Pkgs {
		consider(p.Types)
	}
	for _, name := range []string{"go/types", "go/ast", "go/constant"} {
		if p, ok := fv.w.All[name]; ok {
			consider(p.Types)
		}
	}
	return out
}

func (fv *FuncVC) typeAssert(x *ast.TypeAssertExpr, st *State) (Val, string) {
	v := fv.eval(x.X, st)
	T := fv.typeOf(x.Type)
	cond, out := fv.typeTest(v, T, st)
	return out, cond
}

func (fv *FuncVC) deref(p Val, t types.Type, st *State, text string) Val {
	n := fv.nextOrd("nilptr")
	fv.oblig(st, "safe", fmt.Sprintf("safe:nilptr@%d", n), "dereference "+text, mkNot(mkEq(p.T, "nil")))
	fv.addFact(st, mkNot(mkEq(p.T, "nil")))
	return fv.loadPointee(p, t, st)
}

func (fv *FuncVC) loadPointee(p Val, t types.Type, st *State) Val {
	s := fv.th.sortOf(t)
	if si, ok := fv.th.structOf[s]; ok {
		var fs []string
		for _, f := range si.Fields {
			h := fv.declFieldHeap(s, f.Name, f.S)
			fs = append(fs, sx("select", fv.getHeap(st, h), p.T))
		}
		return Val{fv.th.mkStruct(s, fs), s, t}
	}
	h := fv.declPtrHeap(s)
	v := Val{sx("select", fv.getHeap(st, h), p.T), s, t}
	return v
}

func (fv *FuncVC) storePointee(p Val, v Val, t types.Type, st *State) {
	s := fv.th.sortOf(t)
	if si, ok := fv.th.structOf[s]; ok {
		for _, f := range si.Fields {
			h := fv.declFieldHeap(s, f.Name, f.S)
			fv.setHeap(st, h, sx("store", fv.getHeap(st, h), p.T, sx(fv.th.fieldAcc(si.Name, f.Name), v.T)))
		}
		return
	}
	h := fv.declPtrHeap(s)
	fv.setHeap(st, h, sx("store", fv.getHeap(st, h), p.T, v.T))
}

func elemType(t types.Type) types.Type {
	switch u := types.Unalias(t).Underlying().(type) {
	case *types.Slice:
		return u.Elem()
	case *types.Array:
		return u.Elem()
	case *types.Pointer:
		return elemType(u.Elem())
	case *types.Map:
		return u.Elem()
	}
	return nil
}

func (fv *FuncVC) sliceElem(s Val, i string, st *State) Val {
	et := elemType(s.GoT)
	es := fv.th.sortOf(et)
	h := fv.declSliceHeapT(et)
	v := Val{sx("select", sx("select", fv.getHeap(st, h), sx("sl_ref", s.T)), i), es, et}
	return v
}

func (fv *FuncVC) evalIndex(x *ast.IndexExpr, st *State) Val {
	xt := fv.typeOf(x.X)
	if _, isSig := xt.Underlying().(*types.Signature); isSig {
		// generic function instantiation
		return fv.eval(x.X, st)
	}
	base := fv.eval(x.X, st)
	switch u := types.Unalias(xt).Underlying().(type) {
	case *types.Map:
		k := fv.eval(x.Index, st)
		k = fv.convertTo(k, fv.typeOf(x.Index), u.Key(), st)
		v, _ := fv.mapLookup(base, k, u, st)
		return v
	case *types.Basic: // string
		i := fv.eval(x.Index, st)
		n := fv.nextOrd("index")
		goal := mkAnd(sx("<=", "0", i.T), sx("<", i.T, sx("slen", base.T)))
		fv.oblig(st, "safe", fmt.Sprintf("safe:index@%d", n), "index "+fv.text(x), goal)
		fv.addFact(st, goal)
		return Val{sx("sat", base.T, i.T), SInt, fv.typeOf(x)}
	case *types.Slice, *types.Array:
		i := fv.eval(x.Index, st)
		n := fv.nextOrd("index")
		goal := mkAnd(sx("<=", "0", i.T), sx("<", i.T, sx("sl_len", base.T)))
		fv.oblig(st, "safe", fmt.Sprintf("safe:index@%d", n), "index "+fv.text(x), goal)
		fv.addFact(st, goal)
		v := fv.sliceElem(base, i.T, st)
		fv.valueFacts(st, v)
		return v
	case *types.Pointer:
		// pointer to array
		fv.note("index through pointer %s", fv.text(x))
	}
	fv.note("index %s", fv.text(x))
	return fv.havocVal(st, "idx", fv.typeOf(x))
}

// valueFacts: range and allocation facts for a value read from the heap.
func (fv *FuncVC) valueFacts(st *State, v Val) {
	fv.rangeFact(st, v)
	fv.allocFact(st, v, 0)
}

func (fv *FuncVC) mapLookup(m Val, k Val, mt *types.Map, st *State) (Val, string) {
	ks, vs := fv.th.sortOf(mt.Key()), fv.th.sortOf(mt.Elem())
	d, vv, _ := fv.declMapHeaps(ks, vs)
	dom := sx("select", sx("select", fv.getHeap(st, d), m.T), k.T)
	has := mkAnd(mkNot(mkEq(m.T, "nil")), dom)
	val := mkIte(has, sx("select", sx("select", fv.getHeap(st, vv), m.T), k.T), fv.th.zero(mt.Elem()))
	v := Val{val, vs, mt.Elem()}
	if vs == SRef || vs == SSlice {
		fv.valueFacts(st, v)
	}
	return v, has
}

func (fv *FuncVC) mapStore(m Val, k Val, v Val, mt *types.Map, st *State, text string) {
	ks, vs := fv.th.sortOf(mt.Key()), fv.th.sortOf(mt.Elem())
	d, vv, c := fv.declMapHeaps(ks, vs)
	n := fv.nextOrd("nilmap")
	fv.oblig(st, "safe", fmt.Sprintf("safe:nilmap@%d", n), "store into map "+text, mkNot(mkEq(m.T, "nil")))
	fv.addFact(st, mkNot(mkEq(m.T, "nil")))
	_ = c
	D, V := fv.getHeap(st, d), fv.getHeap(st, vv)
	fv.setHeap(st, d, sx("store", D, m.T, sx("store", sx("select", D, m.T), k.T, "true")))
	fv.setHeap(st, vv, sx("store", V, m.T, sx("store", sx("select", V, m.T), k.T, v.T)))
}

func (fv *FuncVC) mapLen(m Val, mt *types.Map, st *State) Val {
	ks, vs := fv.th.sortOf(mt.Key()), fv.th.sortOf(mt.Elem())
	d, _, c := fv.declMapHeaps(ks, vs)
	t := mkIte(mkEq(m.T, "nil"), "0", sx(c, sx("select", fv.getHeap(st, d), m.T)))
	return Val{t, SInt, types.Typ[types.Int]}
}

func (fv *FuncVC) evalSliceExpr(x *ast.SliceExpr, st *State) Val {
	base := fv.eval(x.X, st)
	t := fv.typeOf(x)
	var lo, hi string
	lo = "0"
	if x.Low != nil {
		lo = fv.eval(x.Low, st).T
	}
	if base.S == SStr {
		hi = sx("slen", base.T)
		if x.High != nil {
			hi = fv.eval(x.High, st).T
		}
		n := fv.nextOrd("slice")
		goal := mkAnd(sx("<=", "0", lo), sx("<=", lo, hi), sx("<=", hi, sx("slen", base.T)))
		fv.oblig(st, "safe", fmt.Sprintf("safe:slice@%d", n), "slice "+fv.text(x), goal)
		fv.addFact(st, goal)
		if lo == "0" && x.High == nil {
			return Val{base.T, SStr, t}
		}
		return Val{sx("sub", base.T, lo, hi), SStr, t}
	}
	if base.S == SSlice {
		hi = sx("sl_len", base.T)
		if x.High != nil {
			hi = fv.eval(x.High, st).T
		}
		n := fv.nextOrd("slice")
		// capacity is not modelled: the bound checked is the length (stricter than Go's cap bound)
		goal := mkAnd(sx("<=", "0", lo), sx("<=", lo, hi), sx("<=", hi, sx("sl_len", base.T)))
		fv.oblig(st, "safe", fmt.Sprintf("safe:slice@%d", n), "slice "+fv.text(x), goal)
		fv.addFact(st, goal)
		if lo == "0" && x.High == nil {
			return Val{base.T, SSlice, t}
		}
		// copy model: a fresh backing array holding the selected window (aliasing dropped)
		et := elemType(base.GoT)
		es := fv.th.sortOf(et)
		h := fv.declSliceHeapT(et)
		r := fv.freshRef(st, "subslice")
		arr := fv.th.freshConst("subarr", arraySort(SInt, es))
		H := fv.getHeap(st, h)
		fv.addFact(st, fmt.Sprintf("(forall ((k Int)) (! (=> (and (<= 0 k) (< k (- %s %s))) (= (select %s k) (select (select %s (sl_ref %s)) (+ %s k)))) :pattern ((select %s k))))",
			hi, lo, arr, H, base.T, lo, arr))
		fv.setHeap(st, h, sx("store", H, r, arr))
		return Val{sx("mk_slice", r, sx("-", hi, lo)), SSlice, t}
	}
	fv.note("slice expression %s", fv.text(x))
	return fv.havocVal(st, "slc", t)
}

func (fv *FuncVC) evalSelector(x *ast.SelectorExpr, st *State) Val {
	// qualified identifier pkg.Name
	if id, ok := x.X.(*ast.Ident); ok {
		if _, isPkg := fv.info.ObjectOf(id).(*types.PkgName); isPkg {
			return fv.evalIdent(x.Sel, st)
		}
	}
	sel := fv.info.Selections[x]
	if sel == nil {
		fv.note("selector %s", fv.text(x))
		return fv.havocVal(st, "sel", fv.typeOf(x))
	}
	switch sel.Kind() {
	case types.FieldVal:
		base := fv.eval(x.X, st)
		return fv.selectPath(base, fv.typeOf(x.X), sel.Index(), st, fv.text(x))
	case types.MethodVal, types.MethodExpr:
		fv.note("method value %s", fv.text(x))
		return fv.havocVal(st, "mval", fv.typeOf(x))
	}
	return fv.havocVal(st, "sel", fv.typeOf(x))
}

// selectPath follows a field index path (with embedded promotions / implicit derefs).
func (fv *FuncVC) selectPath(base Val, t types.Type, path []int, st *State, text string) Val {
	cur := base
	ct := t
	for _, idx := range path {
		ct = types.Unalias(ct)
		if p, ok := ct.Underlying().(*types.Pointer); ok {
			// implicit dereference: read the field from the heap
			stt, ok2 := p.Elem().Underlying().(*types.Struct)
			if !ok2 {
				fv.note("selector through non-struct pointer %s", text)
				return fv.havocVal(st, "sel", stt)
			}
			ss := fv.th.sortOf(p.Elem())
			f := stt.Field(idx)
			fs := fv.th.sortOf(f.Type())
			n := fv.nextOrd("nilptr")
			fv.oblig(st, "safe", fmt.Sprintf("safe:nilptr@%d", n), "field access "+text, mkNot(mkEq(cur.T, "nil")))
			fv.addFact(st, mkNot(mkEq(cur.T, "nil")))
			fv.guardedAccess(st, p.Elem(), f.Name(), cur, text)
			h := fv.declFieldHeap(ss, f.Name(), fs)
			cur = Val{sx("select", fv.getHeap(st, h), cur.T), fs, f.Type()}
			fv.valueFacts(st, cur)
			ct = f.Type()
			continue
		}
		stt, ok := ct.Underlying().(*types.Struct)
		if !ok {
			fv.note("selector on %s", ct)
			return fv.havocVal(st, "sel", ct)
		}
		ss := fv.th.sortOf(ct)
		f := stt.Field(idx)
		cur = Val{sx(fv.th.fieldAcc(string(ss), f.Name()), cur.T), fv.th.sortOf(f.Type()), f.Type()}
		ct = f.Type()
	}
	return cur
}

func (fv *FuncVC) evalComposite(x *ast.CompositeLit, st *State, addr bool) Val {
	t := fv.typeOf(x)
	switch u := types.Unalias(t).Underlying().(type) {
	case *types.Struct:
		s := fv.th.sortOf(t)
		si := fv.th.structOf[s]
		fields := make([]string, len(si.Fields))
		for i, f := range si.Fields {
			fields[i] = fv.th.zero(f.GoT)
		}
		for i, el := range x.Elts {
			if kv, ok := el.(*ast.KeyValueExpr); ok {
				name := kv.Key.(*ast.Ident).Name
				for j, f := range si.Fields {
					if f.Name == name {
						v := fv.eval(kv.Value, st)
						v = fv.convertTo(v, fv.typeOf(kv.Value), f.GoT, st)
						fields[j] = v.T
					}
				}
			} else {
				v := fv.eval(el, st)
				v = fv.convertTo(v, fv.typeOf(el), si.Fields[i].GoT, st)
				fields[i] = v.T
			}
		}
		val := Val{fv.th.mkStruct(s, fields), s, t}
		if addr {
			r := fv.freshRef(st, "new"+si.Name)
			fv.storePointee(Val{r, SRef, nil}, val, t, st)
			return Val{r, SRef, types.NewPointer(t)}
		}
		return val
	case *types.Slice, *types.Array:
		et := elemType(t)
		es := fv.th.sortOf(et)
		h := fv.declSliceHeapT(et)
		r := fv.freshRef(st, "lit")
		arr := fv.th.constArr(SInt, es, fv.th.zero(et))
		n := 0
		for _, el := range x.Elts {
			if kv, ok := el.(*ast.KeyValueExpr); ok {
				fv.note("keyed slice literal")
				el = kv.Value
			}
			var v Val
			if cl, ok := el.(*ast.CompositeLit); ok && cl.Type == nil {
				v = fv.evalComposite(cl, st, false)
			} else {
				v = fv.eval(el, st)
			}
			v = fv.convertTo(v, fv.typeOf(el), et, st)
			arr = sx("store", arr, intLit(int64(n)), v.T)
			n++
		}
		ln := int64(n)
		if a, ok := u.(*types.Array); ok {
			ln = a.Len()
		}
		fv.setHeap(st, h, sx("store", fv.getHeap(st, h), r, arr))
		return Val{sx("mk_slice", r, intLit(ln)), SSlice, t}
	case *types.Map:
		m := fv.makeMap(u, st)
		m.GoT = t
		for _, el := range x.Elts {
			kv := el.(*ast.KeyValueExpr)
			k := fv.eval(kv.Key, st)
			k = fv.convertTo(k, fv.typeOf(kv.Key), u.Key(), st)
			v := fv.eval(kv.Value, st)
			v = fv.convertTo(v, fv.typeOf(kv.Value), u.Elem(), st)
			fv.mapStore(m, k, v, u, st, fv.text(x))
		}
		return m
	}
	fv.note("composite literal %s", fv.text(x))
	return fv.havocVal(st, "lit", t)
}

func (fv *FuncVC) makeMap(mt *types.Map, st *State) Val {
	ks, vs := fv.th.sortOf(mt.Key()), fv.th.sortOf(mt.Elem())
	d, _, c := fv.declMapHeaps(ks, vs)
	r := fv.freshRef(st, "map")
	_ = c
	fv.setHeap(st, d, sx("store", fv.getHeap(st, d), r, fv.th.constArr(ks, SBoolS, "false")))
	return Val{r, SRef, mt}
}

func (fv *FuncVC) makeSlice(t types.Type, n string, st *State) Val {
	et := elemType(t)
	es := fv.th.sortOf(et)
	h := fv.declSliceHeapT(et)
	r := fv.freshRef(st, "make")
	arr := fv.th.constArr(SInt, es, fv.th.zero(et))
	fv.setHeap(st, h, sx("store", fv.getHeap(st, h), r, arr))
	return Val{sx("mk_slice", r, n), SSlice, t}
}

// globalInit finds the initialiser expression of a package-level variable.
func (fv *FuncVC) globalInit(o *types.Var) ast.Expr {
	p := fv.w.All[o.Pkg().Path()]
	if p == nil {
		return nil
	}
	for _, f := range p.Syntax {
		for _, d := range f.Decls {
			gd, ok := d.(*ast.GenDecl)
			if !ok {
				continue
			}
			for _, sp := range gd.Specs {
				vs, ok := sp.(*ast.ValueSpec)
				if !ok {
					continue
				}
				for i, n := range vs.Names {
					if p.TypesInfo.Defs[n] == o && i < len(vs.Values) {
						return vs.Values[i]
					}
				}
			}
		}
	}
	return nil
}

// bitTest: x & m for a literal power of two m, as integer arithmetic.
func bitTest(a, b string) (string, bool) {
	isPow2 := func(s string) bool {
		n, err := strconv.ParseInt(s, 10, 64)
		return err == nil && n > 0 && n&(n-1) == 0
	}
	switch {
	case isPow2(b):
	case isPow2(a):
		a, b = b, a
	default:
		return "", false
	}
	return fmt.Sprintf("(ite (= (mod (div %s %s) 2) 1) %s 0)", a, b, b), true
}

// inlinedClosure: the literal is bound once to a local variable that is only ever called, and its body is
// straight-line; calls of it are then inlined (see evalCall) and the closure value itself is never needed.
func (fv *FuncVC) inlinedClosure(fl *ast.FuncLit) bool {
	if !straightLine(fl.Body.List) {
		return false
	}
	var obj types.Object
	ast.Inspect(fv.fi.Decl.Body, func(m ast.Node) bool {
		if as, ok := m.(*ast.AssignStmt); ok {
			for i, r := range as.Rhs {
				if r == ast.Expr(fl) && i < len(as.Lhs) {
					if id, ok := as.Lhs[i].(*ast.Ident); ok {
						obj = fv.info.ObjectOf(id)
					}
				}
			}
		}
		return true
	})
	if obj == nil || fv.localClosure(obj) != fl {
		return false
	}
	uses, calls := 0, 0
	ast.Inspect(fv.fi.Decl.Body, func(m ast.Node) bool {
		switch m := m.(type) {
		case *ast.Ident:
			if fv.info.Uses[m] == obj {
				uses++
			}
		case *ast.CallExpr:
			if id, ok := ast.Unparen(m.Fun).(*ast.Ident); ok && fv.info.Uses[id] == obj {
				calls++
			}
		}
		return true
	})
	return uses == calls
}

// contractedClosure: the literal is the single value ever assigned to a local variable, that variable is only
// called (never passed on or stored), and the literal has its own contract <Func>$lit<k>: every call is then
// checked against that contract (callClosureContract) and the literal's body against it too (genLit), so the
// function value itself carries no information.
func (fv *FuncVC) contractedClosure(fl *ast.FuncLit) bool {
	var obj types.Object
	ast.Inspect(fv.fi.Decl.Body, func(m ast.Node) bool {
		if as, ok := m.(*ast.AssignStmt); ok {
			for i, r := range as.Rhs {
				if r == ast.Expr(fl) && i < len(as.Lhs) {
					if id, ok := as.Lhs[i].(*ast.Ident); ok {
						obj = fv.info.ObjectOf(id)
					}
				}
			}
		}
		return true
	})
	if obj == nil || fv.localClosure(obj) != fl {
		return false
	}
	if fc, _ := fv.closureContract(fl); fc == nil {
		return false
	}
	uses, calls, assigns := 0, 0, 0
	ast.Inspect(fv.fi.Decl.Body, func(m ast.Node) bool {
		switch m := m.(type) {
		case *ast.Ident:
			if fv.info.Uses[m] == obj {
				uses++
			}
		case *ast.AssignStmt:
			for _, l := range m.Lhs {
				if id, ok := l.(*ast.Ident); ok && fv.info.Uses[id] == obj {
					assigns++
				}
			}
		case *ast.CallExpr:
			if id, ok := ast.Unparen(m.Fun).(*ast.Ident); ok && fv.info.Uses[id] == obj {
				calls++
			}
		}
		return true
	})
	return uses == calls+assigns
}

// closureContract looks up the contract <Func>$lit<k> of a function literal of the verified function.
func (fv *FuncVC) closureContract(fl *ast.FuncLit) (*FuncContract, string) {
	k, n := 0, 0
	ast.Inspect(fv.fi.Decl.Body, func(m ast.Node) bool {
		if l, ok := m.(*ast.FuncLit); ok {
			n++
			if l == fl {
				k = n
			}
		}
		return true
	})
	base := fv.fi.Key
	if i := strings.Index(base, "$lit"); i >= 0 {
		base = base[:i]
	}
	cf := fv.w.Contracts[fv.fi.Pkg.PkgPath]
	if k == 0 || cf == nil {
		return nil, ""
	}
	key := fmt.Sprintf("%s$lit%d", base, k)
	return cf.Funcs[key], key
}
