package main

import (
	"regexp"
	"strconv"
	"go/constant"
	"fmt"
	"go/ast"
	"go/token"
	"go/types"
	"strings"
)

// calleeOf resolves the static callee of a call (nil for dynamic calls).
func (fv *FuncVC) calleeOf(call *ast.CallExpr) types.Object {
	fun := ast.Unparen(call.Fun)
	switch f := fun.(type) {
	case *ast.Ident:
		return fv.info.ObjectOf(f)
	case *ast.SelectorExpr:
		if sel := fv.info.Selections[f]; sel != nil {
			return sel.Obj()
		}
		return fv.info.ObjectOf(f.Sel)
	case *ast.IndexExpr:
		// generic instantiation f[T](...)
		if id, ok := f.X.(*ast.Ident); ok {
			return fv.info.ObjectOf(id)
		}
		if se, ok := f.X.(*ast.SelectorExpr); ok {
			return fv.info.ObjectOf(se.Sel)
		}
	}
	return nil
}

var noopFuncs = map[string]bool{
	"log.Printf": true, "log.Println": true, "log.Print": true,
	"fmt.Printf": true, "fmt.Println": true, "fmt.Print": true,
}

var noReturnFuncs = map[string]bool{
	"log.Fatal": true, "log.Fatalf": true, "log.Fatalln": true, "os.Exit": true, "log.Panic": true, "log.Panicf": true,
}

func (fv *FuncVC) evalCall(call *ast.CallExpr, st *State) []Val {
	fv.curPos = call.Pos()
	// conversion T(x)
	if tv, ok := fv.info.Types[call.Fun]; ok && tv.IsType() {
		return []Val{fv.evalConversion(call, tv.Type, st)}
	}
	obj := fv.calleeOf(call)
	switch o := obj.(type) {
	case *types.Builtin:
		return fv.evalBuiltin(call, o.Name(), st)
	case *types.Func:
		return fv.evalFuncCall(call, o, st)
	}
	// call of a local closure (assigned once) that has its own contract `<Func>$lit<k>`: modular call against
	// that contract (the literal is verified separately by genLit; this is what makes recursive closures reachable)
	if id, ok := ast.Unparen(call.Fun).(*ast.Ident); ok {
		if fl := fv.localClosure(fv.info.ObjectOf(id)); fl != nil {
			if res, ok := fv.callClosureContract(call, fl, st); ok {
				return res
			}
		}
	}
	// call of a local closure `f := func(params) T { return e }` (assigned once): inlined
	if id, ok := ast.Unparen(call.Fun).(*ast.Ident); ok {
		if fl := fv.localClosure(fv.info.ObjectOf(id)); fl != nil && straightLine(fl.Body.List) {
			last := len(fl.Body.List) - 1
			if ret, ok := fl.Body.List[last].(*ast.ReturnStmt); ok && len(ret.Results) == 1 {
				var params []*ast.Ident
				for _, f := range fl.Type.Params.List {
					params = append(params, f.Names...)
				}
				if len(params) == len(call.Args) {
					saved := map[types.Object]*Val{}
					for i, p := range params {
						o := fv.info.Defs[p]
						a := fv.eval(call.Args[i], st)
						if old, had := st.vars[o]; had {
							oo := old
							saved[o] = &oo
						} else {
							saved[o] = nil
						}
						st.vars[o] = Val{a.T, a.S, o.Type()}
					}
					for _, pre := range fl.Body.List[:last] {
						fv.execAssign(pre.(*ast.AssignStmt), st)
					}
					v := fv.eval(ret.Results[0], st)
					// the closure's own locals go out of scope (specs resolve names against the store)
					ast.Inspect(fl.Body, func(m ast.Node) bool {
						if id, ok := m.(*ast.Ident); ok {
							if o := fv.info.Defs[id]; o != nil {
								delete(st.vars, o)
							}
						}
						return true
					})
					for o, old := range saved {
						if old == nil {
							delete(st.vars, o)
						} else {
							st.vars[o] = *old
						}
					}
					return []Val{v}
				}
			}
		}
	}
	// dynamic call through a function value
	fv.note("call through function value %s", fv.text(call.Fun))
	for _, a := range call.Args {
		fv.eval(a, st)
	}
	fv.havocAllHeaps(st)
	fv.havocCaptured(st)
	return fv.freshResults(call, st)
}

// havocCaptured: a call through a closure may assign any local variable captured by a closure
// of this function.
func (fv *FuncVC) havocCaptured(st *State) {
	captured := map[types.Object]bool{}
	ast.Inspect(fv.fi.Decl.Body, func(n ast.Node) bool {
		fl, ok := n.(*ast.FuncLit)
		if !ok {
			return true
		}
		for _, o := range assignedVars(fv.info, fl.Body) {
			captured[o] = true
		}
		return true
	})
	for o := range captured {
		if _, ok := st.vars[o]; ok {
			st.vars[o] = fv.havocVal(st, o.Name(), o.Type())
		}
	}
}

func (fv *FuncVC) freshResults(call *ast.CallExpr, st *State) []Val {
	t := fv.typeOf(call)
	if tup, ok := t.(*types.Tuple); ok {
		var out []Val
		for i := 0; i < tup.Len(); i++ {
			out = append(out, fv.havocVal(st, "res", tup.At(i).Type()))
		}
		return out
	}
	if t == nil || t == types.Typ[types.Invalid] {
		return nil
	}
	if b, ok := t.(*types.Basic); ok && b.Kind() == types.Invalid {
		return nil
	}
	return []Val{fv.havocVal(st, "res", t)}
}

func (fv *FuncVC) evalConversion(call *ast.CallExpr, T types.Type, st *State) Val {
	v := fv.eval(call.Args[0], st)
	from := fv.typeOf(call.Args[0])
	ts, fs := fv.th.sortOf(T), v.S
	switch {
	case ts == fs && ts != SRef:
		if ts == SInt {
			// narrowing conversions wrap in Go; model: value kept when in range, else unconstrained in range
			lo, hi, ok := intRange(T)
			flo, fhi, fok := intRange(from)
			if ok && !(fok && flo == lo && fhi == hi) && !subRange(from, T) {
				r := fv.th.freshConst("conv", SInt)
				in := mkAnd(sx("<=", lo, v.T), sx("<=", v.T, hi))
				fv.addFact(st, mkImp(in, mkEq(r, v.T)))
				fv.addFact(st, mkAnd(sx("<=", lo, r), sx("<=", r, hi)))
				return Val{r, SInt, T}
			}
		}
		return Val{v.T, ts, T}
	case ts == SStr && fs == SInt:
		// string(rune/byte)
		return Val{sx("str1", v.T), SStr, T}
	case ts == SStr && fs == SSlice:
		f := fv.th.declFun("bytes2str", []Sort{arraySort(SInt, SInt), SInt}, SStr)
		h := fv.declSliceHeap(SInt)
		return Val{sx(f, sx("select", fv.getHeap(st, h), sx("sl_ref", v.T)), sx("sl_len", v.T)), SStr, T}
	case ts == SRef && fs == SRef:
		return fv.convertTo(v, from, T, st)
	case types.IsInterface(T):
		return fv.convertTo(v, from, T, st)
	}
	fv.note("conversion %s", fv.text(call))
	return fv.havocVal(st, "conv", T)
}

func subRange(from, to types.Type) bool {
	fb, ok1 := types.Unalias(from).Underlying().(*types.Basic)
	tb, ok2 := types.Unalias(to).Underlying().(*types.Basic)
	if !ok1 || !ok2 {
		return false
	}
	rank := func(k types.BasicKind) (int, bool) { // bits, signed
		switch k {
		case types.Int8:
			return 8, true
		case types.Int16:
			return 16, true
		case types.Int32:
			return 32, true
		case types.Int, types.Int64:
			return 64, true
		case types.Uint8:
			return 8, false
		case types.Uint16:
			return 16, false
		case types.Uint32:
			return 32, false
		case types.Uint, types.Uint64, types.Uintptr:
			return 64, false
		}
		return 0, false
	}
	fbits, fs := rank(fb.Kind())
	tbits, tsg := rank(tb.Kind())
	if fbits == 0 || tbits == 0 {
		return fb.Info()&types.IsUntyped != 0
	}
	if fs == tsg {
		return fbits <= tbits
	}
	if !fs && tsg {
		return fbits < tbits
	}
	return false
}

func (fv *FuncVC) evalBuiltin(call *ast.CallExpr, name string, st *State) []Val {
	switch name {
	case "len":
		v := fv.eval(call.Args[0], st)
		at := types.Unalias(fv.typeOf(call.Args[0]))
		switch u := at.Underlying().(type) {
		case *types.Map:
			return []Val{fv.mapLen(v, u, st)}
		}
		if v.S == SStr {
			return []Val{{sx("slen", v.T), SInt, types.Typ[types.Int]}}
		}
		if v.S == SSlice {
			return []Val{{sx("sl_len", v.T), SInt, types.Typ[types.Int]}}
		}
	case "cap":
		v := fv.eval(call.Args[0], st)
		if v.S == SSlice {
			c := fv.th.freshConst("cap", SInt)
			fv.addFact(st, sx(">=", c, sx("sl_len", v.T)))
			return []Val{{c, SInt, types.Typ[types.Int]}}
		}
	case "panic":
		for _, a := range call.Args {
			fv.eval(a, st)
		}
		// explicit diagnostic exit: the path ends here
		st.guard = "false"
		return nil
	case "append":
		return []Val{fv.evalAppend(call, st)}
	case "make":
		T := fv.typeOf(call.Args[0])
		switch u := types.Unalias(T).Underlying().(type) {
		case *types.Map:
			for _, a := range call.Args[1:] {
				fv.eval(a, st)
			}
			m := fv.makeMap(u, st)
			m.GoT = T
			return []Val{m}
		case *types.Slice:
			n := fv.eval(call.Args[1], st)
			k := fv.nextOrd("makelen")
			fv.oblig(st, "safe", fmt.Sprintf("safe:makelen@%d", k), "make length "+fv.text(call), sx(">=", n.T, "0"))
			fv.addFact(st, sx(">=", n.T, "0"))
			if len(call.Args) > 2 {
				fv.eval(call.Args[2], st)
			}
			return []Val{fv.makeSlice(T, n.T, st)}
		}
	case "new":
		T := fv.typeOf(call.Args[0])
		r := fv.freshRef(st, "new")
		fv.storePointee(Val{r, SRef, nil}, Val{fv.th.zero(T), fv.th.sortOf(T), T}, T, st)
		return []Val{{r, SRef, types.NewPointer(T)}}
	case "delete":
		m := fv.eval(call.Args[0], st)
		k := fv.eval(call.Args[1], st)
		mt := types.Unalias(fv.typeOf(call.Args[0])).Underlying().(*types.Map)
		ks, vs := fv.th.sortOf(mt.Key()), fv.th.sortOf(mt.Elem())
		d, _, c := fv.declMapHeaps(ks, vs)
		_ = c
		D := fv.getHeap(st, d)
		fv.setHeap(st, d, sx("store", D, m.T, sx("store", sx("select", D, m.T), k.T, "false")))
		return nil
	case "min", "max":
		if len(call.Args) == 2 {
			a, b := fv.eval(call.Args[0], st), fv.eval(call.Args[1], st)
			if a.S == SInt {
				if name == "min" {
					return []Val{{mkIte(sx("<=", a.T, b.T), a.T, b.T), SInt, fv.typeOf(call)}}
				}
				return []Val{{mkIte(sx(">=", a.T, b.T), a.T, b.T), SInt, fv.typeOf(call)}}
			}
		}
	case "copy":
		fv.note("copy builtin")
		for _, a := range call.Args {
			fv.eval(a, st)
		}
		fv.havocAllHeaps(st)
		return fv.freshResults(call, st)
	}
	fv.note("builtin %s", fv.text(call))
	for _, a := range call.Args {
		fv.eval(a, st)
	}
	return fv.freshResults(call, st)
}

func (fv *FuncVC) evalAppend(call *ast.CallExpr, st *State) Val {
	T := fv.typeOf(call)
	base := fv.eval(call.Args[0], st)
	base = fv.convertTo(base, fv.typeOf(call.Args[0]), T, st)
	et := elemType(T)
	es := fv.th.sortOf(et)
	h := fv.declSliceHeapT(et)
	if call.Ellipsis.IsValid() {
		// append(a, b...)
		other := fv.eval(call.Args[1], st)
		if other.S == SStr {
			fv.note("append(bytes, string...)")
			return fv.havocVal(st, "app", T)
		}
		r := fv.freshRef(st, "append")
		arr := fv.th.freshConst("apparr", arraySort(SInt, es))
		H := fv.getHeap(st, h)
		la, lb := sx("sl_len", base.T), sx("sl_len", other.T)
		fv.addFact(st, fmt.Sprintf("(forall ((k Int)) (! (and (=> (and (<= 0 k) (< k %s)) (= (select %s k) (select (select %s (sl_ref %s)) k))) (=> (and (<= %s k) (< k (+ %s %s))) (= (select %s k) (select (select %s (sl_ref %s)) (- k %s))))) :pattern ((select %s k))))",
			la, arr, H, base.T, la, la, lb, arr, H, other.T, la, arr))
		fv.setHeap(st, h, sx("store", H, r, arr))
		return Val{sx("mk_slice", r, sx("+", la, lb)), SSlice, T}
	}
	if len(call.Args) == 1 {
		return base
	}
	// append(a, x1, ..., xn): fresh backing array = copy of a's array with the new elements stored
	H := fv.getHeap(st, h)
	arr := sx("select", H, sx("sl_ref", base.T))
	ln := sx("sl_len", base.T)
	for i, a := range call.Args[1:] {
		var v Val
		if cl, ok := a.(*ast.CompositeLit); ok && cl.Type == nil {
			v = fv.evalComposite(cl, st, false)
		} else {
			v = fv.eval(a, st)
		}
		v = fv.convertTo(v, fv.typeOf(a), et, st)
		pos := ln
		if i > 0 {
			pos = sx("+", ln, intLit(int64(i)))
		}
		arr = sx("store", arr, pos, v.T)
	}
	r := fv.freshRef(st, "append")
	fv.setHeap(st, h, sx("store", fv.getHeap(st, h), r, arr))
	// redundant ground facts "the appended element is readable at its position": they give the
	// solvers the witness terms that existential goals about the new slice need
	for i := range call.Args[1:] {
		pos := ln
		if i > 0 {
			pos = sx("+", ln, intLit(int64(i)))
		}
		fv.addFact(st, mkEq(sx("select", sx("select", fv.getHeap(st, h), r), pos), sx("select", arr, pos)))
	}
	return Val{sx("mk_slice", r, sx("+", ln, intLit(int64(len(call.Args)-1)))), SSlice, T}
}

// evalArgs evaluates receiver and arguments of a call to f, converting to parameter types.
func (fv *FuncVC) evalArgs(call *ast.CallExpr, f *types.Func, st *State) (recv *Val, args []Val) {
	sig := f.Type().(*types.Signature)
	if sig.Recv() != nil {
		if se, ok := ast.Unparen(call.Fun).(*ast.SelectorExpr); ok {
			sel := fv.info.Selections[se]
			rv := fv.eval(se.X, st)
			rt := fv.typeOf(se.X)
			inRepo := fv.w.ByObj[f.Origin()] != nil
			if !inRepo {
				// methods of dependency types: objects are opaque references, the receiver is the value itself
				if rv.S == SRef {
					_, ptrRecv := sig.Recv().Type().Underlying().(*types.Pointer)
					if ptrRecv || types.IsInterface(rt) {
						n := fv.nextOrd("nilrecv")
						fv.oblig(st, "safe", fmt.Sprintf("safe:nilrecv@%d", n), "method call on possibly nil "+fv.text(se.X), mkNot(mkEq(rv.T, "nil")))
						fv.addFact(st, mkNot(mkEq(rv.T, "nil")))
					}
				}
				recv = &rv
				goto args
			}
			if sel != nil && len(sel.Index()) > 1 {
				// promoted method through embedded fields
				rv = fv.selectPath(rv, rt, sel.Index()[:len(sel.Index())-1], st, fv.text(se))
				rt = rv.GoT
			}
			// auto address/deref
			recvT := sig.Recv().Type()
			_, wantPtr := recvT.Underlying().(*types.Pointer)
			_, havePtr := types.Unalias(rt).Underlying().(*types.Pointer)
			if cfi := fv.w.ByObj[f.Origin()]; wantPtr && !havePtr && !types.IsInterface(rt) && cfi != nil && cfi.Contract != nil && cfi.Contract.Pure {
				// pure method with a pointer receiver called on an addressable value: a function of the value
			} else if id, isId := ast.Unparen(se.X).(*ast.Ident); wantPtr && !havePtr && !types.IsInterface(rt) && isId && fv.th.structOf[rv.S] != nil && fv.recvConfined(f) {
				// x.M() with a pointer receiver on a local struct variable x: copy-in / copy-out through a fresh
				// cell (sound because the callee only selects fields of its receiver: it cannot retain the pointer)
				r := fv.freshRef(st, "addr"+sanitize(id.Name))
				cell := Val{r, SRef, recvT}
				fv.storePointee(cell, rv, rt, st)
				obj := fv.info.ObjectOf(id)
				fv.copyOuts = append(fv.copyOuts, func() {
					if _, isVar := st.vars[obj]; isVar {
						nv := fv.loadPointee(cell, rt, st)
						st.vars[obj] = Val{nv.T, nv.S, obj.Type()}
					}
				})
				rv = cell
			} else if wantPtr && !havePtr && !types.IsInterface(rt) {
				fv.note("implicit address-of for method call %s", fv.text(se))
				rv = fv.havocVal(st, "recvaddr", recvT)
			} else if !wantPtr && havePtr && !types.IsInterface(recvT) {
				rv = fv.deref(rv, recvT, st, fv.text(se.X))
			} else if wantPtr && havePtr && rv.S == SRef {
				// the callee is swept assuming a non-nil pointer receiver: the caller owes it
				n := fv.nextOrd("nilrecv")
				fv.oblig(st, "safe", fmt.Sprintf("safe:nilrecv@%d", n), "method call on possibly nil "+fv.text(se.X), mkNot(mkEq(rv.T, "nil")))
				fv.addFact(st, mkNot(mkEq(rv.T, "nil")))
			}
			recv = &rv
		}
	}
args:
	params := sig.Params()
	np := params.Len()
	if _, isTuple := fv.typeOf(firstArg(call)).(*types.Tuple); len(call.Args) == 1 && np > 1 && isTuple {
		// f(g()) with multi-value g
		vals := fv.evalMulti(call.Args[0], st, np)
		return recv, vals
	}
	for i, a := range call.Args {
		var v Val
		if fl, ok := a.(*ast.FuncLit); ok {
			_ = fl
			v = Val{fv.th.freshConst("closure", SRef), SRef, fv.typeOf(a)}
		} else {
			v = fv.eval(a, st)
		}
		var pt types.Type
		if sig.Variadic() && i >= np-1 {
			if call.Ellipsis.IsValid() {
				pt = params.At(np - 1).Type()
			} else {
				pt = params.At(np - 1).Type().(*types.Slice).Elem()
			}
		} else if i < np {
			pt = params.At(i).Type()
		}
		if pt != nil {
			if _, isTP := pt.(*types.TypeParam); !isTP {
				v = fv.convertTo(v, fv.typeOf(a), pt, st)
			}
		}
		args = append(args, v)
	}
	return recv, args
}

var resNameRE = regexp.MustCompile(`\bres_[A-Za-z0-9]+_[0-9]+\b`)

func funcFullName(f *types.Func) string {
	return f.FullName()
}

func (fv *FuncVC) evalFuncCall(call *ast.CallExpr, f *types.Func, st *State) []Val {
	n := len(fv.copyOuts)
	out := fv.evalFuncCall0(call, f, st)
	// the first result of the k-th call (on this path) of a function or method named F is res_F_k in callarg clauses:
	// lets a contract say that one call's result is exactly another call's argument (composition order)
	if len(out) > 0 && fv.mode == "full" && fv.fi.Contract != nil && len(fv.fi.Contract.CallArgs) > 0 {
		if fv.callResults == nil {
			fv.callResults = map[string]Val{}
		}
		fv.callResults[fmt.Sprintf("res_%s_%d", f.Name(), fv.nextOrd("resname:"+f.Name()))] = out[0]
	}
	for _, co := range fv.copyOuts[n:] {
		co()
	}
	fv.copyOuts = fv.copyOuts[:n]
	return out
}

// recvConfined: the method uses its receiver only to select fields (x.f), so the pointer cannot outlive the call.
func (fv *FuncVC) recvConfined(f *types.Func) bool {
	fi := fv.w.ByObj[f.Origin()]
	if fi == nil || fi.Decl == nil || fi.Decl.Recv == nil || len(fi.Decl.Recv.List) == 0 || len(fi.Decl.Recv.List[0].Names) == 0 || fi.Decl.Body == nil {
		return false
	}
	info := fi.Pkg.TypesInfo
	robj := info.Defs[fi.Decl.Recv.List[0].Names[0]]
	sel := map[*ast.Ident]bool{}
	ok := true
	ast.Inspect(fi.Decl.Body, func(m ast.Node) bool {
		switch m := m.(type) {
		case *ast.SelectorExpr:
			if id, isId := m.X.(*ast.Ident); isId && info.Uses[id] == robj {
				if s := info.Selections[m]; s != nil && s.Kind() == types.FieldVal {
					sel[id] = true
				}
			}
		case *ast.Ident:
			if info.Uses[m] == robj && !sel[m] {
				ok = false
			}
		}
		return true
	})
	return ok
}

func (fv *FuncVC) evalFuncCall0(call *ast.CallExpr, f *types.Func, st *State) []Val {
	full := funcFullName(f.Origin())
	if noopFuncs[full] {
		for _, a := range call.Args {
			fv.eval(a, st)
		}
		return fv.freshResults(call, st)
	}
	if noReturnFuncs[full] {
		for _, a := range call.Args {
			fv.eval(a, st)
		}
		st.guard = "false"
		return nil
	}
	if out, ok := fv.intrinsic(call, f, full, st); ok {
		return out
	}
	recv, args := fv.evalArgs(call, f, st)
	if fv.fi.Contract != nil && fv.mode == "full" && len(fv.fi.Contract.CallArgs) > 0 {
		k := fv.nextOrd("callarg:" + full)
		for _, ca := range fv.fi.Contract.CallArgs {
			if ca.Callee == full && ca.Ord == k {
				if ca.Idx >= len(args) {
					specFail("callarg %s@%d: no argument %d", full, k, ca.Idx)
				}
				casc := fv.specScope(st, fv.entry, false)
				for rn, rv := range fv.callResults {
					casc.bound[rn] = rv
				}
				// a result name that no earlier call on this path has produced: the composition the clause asks for
				// is not there — a failed obligation, not a contract that "cannot be generated"
				missing := ""
				for _, rn := range resNameRE.FindAllString(ca.Text, -1) {
					if _, ok := fv.callResults[rn]; !ok {
						missing = rn
					}
				}
				if missing != "" {
					fv.oblig(st, "post", fmt.Sprintf("callarg:%s@%d:%d", full, k, ca.Idx), fmt.Sprintf("argument %d of call %d to %s is %s (no call has produced %s before this one)", ca.Idx, k, full, ca.Text, missing), "false")
					continue
				}
				want := fv.specEval(ca.Expr, casc)
				if args[ca.Idx].S == SRef && want.S != SRef && want.GoT != nil {
					// the argument was boxed into an interface parameter: box the expected value the same way
					if at := fv.typeOf(call.Args[ca.Idx]); at != nil {
						want = fv.box(Val{want.T, want.S, at}, at, types.NewInterfaceType(nil, nil), st)
					}
				}
				fv.oblig(st, "post", fmt.Sprintf("callarg:%s@%d:%d", full, k, ca.Idx), fmt.Sprintf("argument %d of call %d to %s is %s", ca.Idx, k, full, ca.Text), fv.eqVals(args[ca.Idx], want))
			}
		}
	}
	if fv.fi.Contract != nil && fv.mode == "full" && len(fv.fi.Contract.CallVerbs) > 0 && len(call.Args) > 0 {
		fv.callVerbObligations(call, full, args, st)
	}
	// 0. method of a repository interface declared pure (`//@ puremethod I.M`): an uninterpreted function of the receiver
	if key, ok := fv.pureMethodKey(f); ok {
		fv.usedExterns["puremethod "+key+": every implementation is assumed to be a pure function of the node"] = true
		return fv.pureApp(call, f, "im$"+key, recv, args, st)
	}
	// 1. function of the repository with a contract: modular call
	if fi := fv.w.ByObj[f.Origin()]; fi != nil {
		if fi.Contract != nil && (fv.mode == "full" || fi.Contract.Pure) {
			return fv.callContract(call, fi, recv, args, st)
		}
		if fi.Contract != nil && fv.mode == "safety" {
			return fv.callContract(call, fi, recv, args, st)
		}
		return fv.callUnknown(call, f, full, recv, args, st, true)
	}
	// 2. extern with a spec
	if ex := fv.w.Externs.Specs[full]; ex != nil {
		if ex.Hof && !fv.hofArgsConfined(call) {
			return fv.callUnknown(call, f, full, recv, args, st, false)
		}
		return fv.callExtern(call, f, ex, recv, args, st)
	}
	// 3. extern from a package declared pure
	pkg := ""
	if f.Pkg() != nil {
		pkg = f.Pkg().Path()
	}
	if fv.w.Externs.PurePkgs[pkg] {
		fv.usedExterns["purepkg "+pkg+": "+full] = true
		return fv.pureApp(call, f, full, recv, args, st)
	}
	return fv.callUnknown(call, f, full, recv, args, st, false)
}

// pureApp models a call as an uninterpreted function of its arguments.
func (fv *FuncVC) pureApp(call *ast.CallExpr, f *types.Func, full string, recv *Val, args []Val, st *State) []Val {
	var all []Val
	if recv != nil {
		all = append(all, *recv)
	}
	all = append(all, args...)
	sig := f.Type().(*types.Signature)
	res := sig.Results()
	var out []Val
	for i := 0; i < res.Len(); i++ {
		rt := res.At(i).Type()
		if tp, ok := rt.(*types.TypeParam); ok {
			_ = tp
			rt = fv.typeOf(call)
		}
		rs := fv.th.sortOf(rt)
		// methods of dependency objects: one symbol per (package, method name), whatever the static receiver
		// type (interface method, promoted method of an embedded struct, concrete method): an object has one
		// dynamic type, so these all denote the same function on references
		symbol := full
		if sig.Recv() != nil && f.Pkg() != nil {
			symbol = f.Pkg().Path() + "." + f.Name()
		}
		name := "x$" + sanitize(symbol)
		var sorts []Sort
		for _, a := range all {
			sorts = append(sorts, a.S)
			name += "$" + sanitize(string(a.S))
		}
		if res.Len() > 1 {
			name += fmt.Sprintf("$r%d", i)
		}
		var term string
		first := !fv.th.declSeen[name]
		if len(all) == 0 {
			term = fv.th.declConst(name, rs)
		} else {
			fv.th.declFun(name, sorts, rs)
			ts := make([]string, len(all))
			for j, a := range all {
				ts[j] = a.T
			}
			term = sx(name, ts...)
		}
		v := Val{term, rs, rt}
		if first {
			// range / well-formedness of results as global axioms (arguments may be bound variables)
			var binders, bn []string
			for j, srt := range sorts {
				b := fmt.Sprintf("a%d", j)
				binders = append(binders, fmt.Sprintf("(%s %s)", b, srt))
				bn = append(bn, b)
			}
			app := name
			if len(bn) > 0 {
				app = sx(name, bn...)
			}
			var body string
			if lo, hi, ok := intRange(rt); ok && rs == SInt {
				body = mkAnd(sx("<=", lo, app), sx("<=", app, hi))
			} else if rs == SSlice {
				body = sx(">=", sx("sl_len", app), "0")
			}
			if body != "" {
				if len(bn) > 0 {
					fv.th.axioms = append(fv.th.axioms, fmt.Sprintf("(forall (%s) (! %s :pattern (%s)))", strings.Join(binders, " "), body, app))
				} else {
					fv.th.axioms = append(fv.th.axioms, body)
				}
			}
		}
		fv.dynTypeFact(st, v)
		out = append(out, v)
	}
	return out
}

// dynTypeFact: a non-nil value whose static type is a pointer to a named (non interface) type has that
// dynamic type (Go's typing). Terms mentioning bound variables are left alone.
func (fv *FuncVC) dynTypeFact(st *State, v Val) {
	if v.S != SRef || v.GoT == nil || st == nil || strings.Contains(v.T, "?") || v.T == "nil" {
		return
	}
	p, ok := types.Unalias(v.GoT).(*types.Pointer)
	if !ok {
		return
	}
	if _, ok := types.Unalias(p.Elem()).(*types.Named); !ok || types.IsInterface(p.Elem()) {
		return
	}
	fv.addFact(st, mkOr(mkEq(v.T, "nil"), mkEq(sx("dyntype", v.T), intLit(int64(fv.th.tagOf(v.GoT))))))
}

func (fv *FuncVC) callUnknown(call *ast.CallExpr, f *types.Func, full string, recv *Val, args []Val, st *State, inRepo bool) []Val {
	if inRepo {
		fv.unknownCalls["repo function without contract: "+full] = true
	} else {
		fv.unknownCalls["extern without spec: "+full] = true
	}
	touches := false
	if recv != nil && (recv.S == SRef || recv.S == SSlice) {
		touches = true
	}
	for _, a := range args {
		if a.S == SRef || a.S == SSlice || fv.th.structOf[a.S] != nil {
			touches = true
		}
	}
	if touches || inRepo {
		fv.havocAllHeaps(st)
	}
	for _, a := range call.Args {
		if _, ok := a.(*ast.FuncLit); ok {
			fv.havocCaptured(st)
		}
	}
	return fv.freshResults(call, st)
}

// callContract: modular call — assert the precondition, havoc the frame, assume the postcondition.
func (fv *FuncVC) callContract(call *ast.CallExpr, fi *FuncInfo, recv *Val, args []Val, st *State) []Val {
	fc := fi.Contract
	fv.calledContracts[fi.FullKey()] = true
	sig := fi.Obj.Type().(*types.Signature)
	bind := map[string]Val{}
	if sig.Recv() != nil && recv != nil && fi.Decl.Recv != nil && len(fi.Decl.Recv.List) > 0 && len(fi.Decl.Recv.List[0].Names) > 0 {
		bind[fi.Decl.Recv.List[0].Names[0].Name] = Val{recv.T, recv.S, sig.Recv().Type()}
	}
	for i := 0; i < sig.Params().Len() && i < len(args); i++ {
		p := sig.Params().At(i)
		bind[p.Name()] = Val{args[i].T, args[i].S, p.Type()}
	}
	k := fv.nextOrd("call:" + fi.Key)
	pre := st.clone()
	if fv.mode == "full" {
		for i, c := range fc.Requires {
			sc := fv.calleeScope(fi, st, pre, bind, nil)
			g := fv.specBool(c.Expr, sc)
			fv.oblig(st, "pre", fmt.Sprintf("pre:%s@%d:%d", fi.Key, k, i+1), c.Text, g)
			fv.addFact(st, g)
		}
	}
	// frame
	for _, loc := range fv.modLocs(fc.Modifies, fv.calleeScope(fi, pre, pre, bind, nil)) {
		fv.havocLoc(st, loc)
	}
	fv.applyGhostSets(fc, st, fv.calleeScope(fi, pre, pre, bind, nil))
	// a callee may allocate: the set of allocated references only grows (results may be fresh objects)
	if !fc.Pure {
		fv.growAlloc(st)
	}
	// results
	var results []Val
	resBind := map[string]Val{}
	for i := 0; i < sig.Results().Len(); i++ {
		r := sig.Results().At(i)
		v := fv.havocVal(st, "res$"+fi.Obj.Name(), r.Type())
		results = append(results, v)
		if i == 0 {
			resBind["result"] = v
		}
		resBind[fmt.Sprintf("result%d", i+1)] = v
		if r.Name() != "" {
			resBind[r.Name()] = v
		}
	}
	if fc.Pure && len(results) >= 1 {
		// pure function: result is a function of the arguments (and the heaps it reads: listed)
		var all []Val
		if recv != nil {
			all = append(all, *recv)
		}
		all = append(all, args...)
		name := "pure$" + sanitize(fi.FullKey())
		var sorts []Sort
		ts := make([]string, len(all))
		for j, a := range all {
			sorts = append(sorts, a.S)
			ts[j] = a.T
		}
		if len(all) > 0 {
			for ri := range results {
				if fc.PureOnly != nil && !fc.PureOnly[ri] {
					continue
				}
				nm := name
				if ri > 0 {
					nm = fmt.Sprintf("%s$r%d", name, ri+1)
				}
				fv.th.declFun(nm, sorts, results[ri].S)
				fv.addFact(st, mkEq(results[ri].T, sx(nm, ts...)))
			}
		}
	}
	// atlock(e) in a callee's postcondition denotes a state inside the callee (right after its Lock()):
	// unknown to the caller, so every heap is arbitrary there.
	savedSnap := fv.lockSnap
	snap := st.clone()
	for h, srt := range fv.heapSort {
		snap.heaps[h] = fv.th.freshConst(sanitize(h)+"$atlock", srt)
	}
	fv.lockSnap = snap
	for _, c := range fc.Ensures {
		sc := fv.calleeScope(fi, st, pre, bind, resBind)
		// a postcondition that speaks about the callee's locals (exit assertions) means nothing to the caller
		func() {
			defer func() {
				if r := recover(); r != nil {
					if se, ok := r.(specErr); ok && strings.Contains(string(se), "unknown identifier") {
						return
					}
					panic(r)
				}
			}()
			nf := len(fv.facts)
			g := fv.specBool(c.Expr, sc)
			fv.facts = fv.facts[:nf]
			fv.addFact(st, g)
		}()
	}
	fv.lockSnap = savedSnap
	return results
}

// resolveHeapName gives the sort of a heap named in a modifies clause.
func (fv *FuncVC) resolveHeapName(m string) (Sort, bool) {
	switch {
	case m == "alloc":
		return arraySort(SRef, SBoolS), true
	case strings.HasPrefix(m, "H$"):
		return arraySort(SRef, arraySort(SInt, Sort(strings.TrimPrefix(m, "H$")))), true
	case strings.HasPrefix(m, "P$"):
		return arraySort(SRef, Sort(strings.TrimPrefix(m, "P$"))), true
	case strings.HasPrefix(m, "F$"):
		// field heap named explicitly: find the struct type and the field
		for _, pk := range fv.w.All {
			if pk.Types == nil {
				continue
			}
			sc := pk.Types.Scope()
			for _, n := range sc.Names() {
				tn, ok := sc.Lookup(n).(*types.TypeName)
				if !ok {
					continue
				}
				stt, ok := tn.Type().Underlying().(*types.Struct)
				if !ok || !strings.HasPrefix(m, "F$"+sanitize(pk.PkgPath+"."+n)+".") {
					continue
				}
				ss := fv.th.sortOf(tn.Type())
				for i := 0; i < stt.NumFields(); i++ {
					if fieldHeap(ss, stt.Field(i).Name()) == m {
						return arraySort(SRef, fv.th.sortOf(stt.Field(i).Type())), true
					}
				}
			}
		}
		return "", false
	case m == "G$lasterr":
		return arraySort(SRef, SRef), true
	case strings.HasPrefix(m, "G$"):
		return arraySort(SRef, SInt), true
	}
	return "", false
}

func (fv *FuncVC) callExtern(call *ast.CallExpr, f *types.Func, ex *ExternSpec, recv *Val, args []Val, st *State) []Val {
	fv.usedExterns[ex.Key+" ("+ex.File+")"] = true
	if ex.NoReturn {
		st.guard = "false"
		return nil
	}
	sig := f.Type().(*types.Signature)
	bind := map[string]Val{}
	if recv != nil {
		bind["recv"] = *recv
	}
	for i, a := range args {
		if i < len(ex.Params) {
			bind[ex.Params[i]] = a
		}
	}
	k := fv.nextOrd("call:" + ex.Key)
	pre := st.clone()
	for i, c := range ex.Requires {
		sc := fv.externScope(st, pre, bind, nil)
		g := fv.specBool(c.Expr, sc)
		fv.oblig(st, "pre", fmt.Sprintf("pre:%s@%d:%d", ex.Key, k, i+1), c.Text, g)
		fv.addFact(st, g)
	}
	var results []Val
	if ex.Once {
		if k > 1 {
			fv.note("extern %s declared 'once' is called more than once", ex.Key)
		}
		for i := 0; i < sig.Results().Len(); i++ {
			rt := sig.Results().At(i).Type()
			rs := fv.th.sortOf(rt)
			name := fmt.Sprintf("once$%s$r%d", sanitize(ex.Key), i+1)
			if k > 1 {
				name = fv.th.freshName(name)
			}
			fv.th.declConst(name, rs)
			v := Val{name, rs, rt}
			fv.valueFacts(st, v)
			results = append(results, v)
		}
	} else if ex.Pure {
		results = fv.pureApp(call, f, ex.Key, recv, args, st)
	} else {
		for _, loc := range fv.modLocs(ex.Modifies, fv.externScope(pre, pre, bind, nil)) {
			fv.havocLoc(st, loc)
		}
		for i := 0; i < sig.Results().Len(); i++ {
			rt := sig.Results().At(i).Type()
			if _, ok := rt.(*types.TypeParam); ok {
				rt = fv.typeOf(call)
			}
			results = append(results, fv.havocVal(st, "res$"+f.Name(), rt))
		}
	}
	resBind := map[string]Val{}
	for i, r := range results {
		if i == 0 {
			resBind["result"] = r
		}
		resBind[fmt.Sprintf("result%d", i+1)] = r
	}
	for _, c := range ex.Ensures {
		sc := fv.externScope(st, pre, bind, resBind)
		fv.addFact(st, fv.specBool(c.Expr, sc))
	}
	return results
}

func firstArg(call *ast.CallExpr) ast.Expr {
	if len(call.Args) == 0 {
		return nil
	}
	return call.Args[0]
}

// modLoc is one entry of a modifies clause: a whole heap, or one object of a heap.
type modLoc struct {
	heap string // "*" = everything
	ref  string // "" = the whole heap
}

// modLocs resolves modifies entries. Forms: `*`, a raw heap name, `contents(x)` (the elements of
// slice x), `x.f` (field f of the struct x points to), `deref(p)` (the pointee of p),
// `keys(m)` (the map m: domain and values).
func (fv *FuncVC) modLocs(entries []string, sc *SpecScope) []modLoc {
	var out []modLoc
	for _, m := range entries {
		m = strings.TrimSpace(m)
		if m == "" {
			continue
		}
		if m == "*" {
			out = append(out, modLoc{"*", ""})
			continue
		}
		if m == "alloc" || strings.Contains(m, "$") {
			if _, ok := fv.heapSort[m]; !ok {
				if s, ok2 := fv.resolveHeapName(m); ok2 {
					fv.heapDecl(m, s)
				} else {
					specFail("modifies: unknown heap %s", m)
				}
			}
			out = append(out, modLoc{m, ""})
			continue
		}
		n, err := parseSpecExpr(m)
		if err != nil {
			specFail("modifies: %v", err)
		}
		switch x := n.(type) {
		case *SCall:
			id, _ := x.Fun.(*SIdent)
			if id != nil && len(x.Args) == 1 {
				if id.Name == "runs" || id.Name == "lasterr" {
					lit, ok := x.Args[0].(*SStrLit)
					if !ok {
						specFail("modifies %s(): string literal expected", id.Name)
					}
					h := "G$" + id.Name
					if s, ok := fv.resolveHeapName(h); ok {
						fv.heapDecl(h, s)
					}
					out = append(out, modLoc{h, fv.execKeyRef(lit.V)})
					continue
				}
				a := fv.specEval(x.Args[0], sc)
				switch id.Name {
				case "contents":
					et := elemType(a.GoT)
					if a.S != SSlice || et == nil {
						specFail("modifies contents(): not a slice")
					}
					out = append(out, modLoc{fv.declSliceHeapT(et), sx("sl_ref", a.T)})
					continue
				case "deref":
					pt, ok := types.Unalias(a.GoT).Underlying().(*types.Pointer)
					if !ok {
						specFail("modifies deref(): not a pointer")
					}
					out = append(out, modLoc{fv.declPtrHeap(fv.th.sortOf(pt.Elem())), a.T})
					continue
				case "keys":
					mt, ok := types.Unalias(a.GoT).Underlying().(*types.Map)
					if !ok {
						specFail("modifies keys(): not a map")
					}
					d, v, _ := fv.declMapHeaps(fv.th.sortOf(mt.Key()), fv.th.sortOf(mt.Elem()))
					out = append(out, modLoc{d, a.T}, modLoc{v, a.T})
					continue
				}
			}
		case *SSelect:
			base := fv.specEval(x.X, sc)
			pt, ok := types.Unalias(base.GoT).Underlying().(*types.Pointer)
			if ok {
				if stt, ok := pt.Elem().Underlying().(*types.Struct); ok {
					for i := 0; i < stt.NumFields(); i++ {
						if stt.Field(i).Name() == x.Sel {
							h := fv.declFieldHeap(fv.th.sortOf(pt.Elem()), x.Sel, fv.th.sortOf(stt.Field(i).Type()))
							out = append(out, modLoc{h, base.T})
						}
					}
					continue
				}
			}
		}
		specFail("modifies: unsupported location %q", m)
	}
	return out
}

func innerSort(heapSort Sort) Sort {
	s := string(heapSort)
	return Sort(strings.TrimSuffix(strings.TrimPrefix(s, "(Array Ref "), ")"))
}

func (fv *FuncVC) havocLoc(st *State, loc modLoc) {
	if loc.heap == "*" {
		fv.havocAllHeaps(st)
		return
	}
	fv.getHeap(st, loc.heap)
	if loc.ref == "" {
		fv.havocHeap(st, loc.heap)
		return
	}
	inner := fv.th.freshConst("mod$"+sanitize(loc.heap), innerSort(fv.heapSort[loc.heap]))
	fv.setHeap(st, loc.heap, sx("store", fv.getHeap(st, loc.heap), loc.ref, inner))
}

// pureMethodKey: f is a method of an interface of the repository declared `//@ puremethod I.M`.
func (fv *FuncVC) pureMethodKey(f *types.Func) (string, bool) {
	sig, ok := f.Type().(*types.Signature)
	if !ok || sig.Recv() == nil || f.Pkg() == nil {
		return "", false
	}
	rt := sig.Recv().Type()
	if !types.IsInterface(rt) {
		return "", false
	}
	n, ok := types.Unalias(rt).(*types.Named)
	if !ok {
		return "", false
	}
	key := f.Pkg().Path() + "." + n.Obj().Name() + "." + f.Name()
	return key, fv.w.PureMethods[key]
}

// localClosure: the function literal a local variable is bound to, when it is assigned exactly once.
func (fv *FuncVC) localClosure(o types.Object) *ast.FuncLit {
	if o == nil {
		return nil
	}
	var found *ast.FuncLit
	n := 0
	ast.Inspect(fv.fi.Decl.Body, func(m ast.Node) bool {
		as, ok := m.(*ast.AssignStmt)
		if !ok {
			return true
		}
		for i, l := range as.Lhs {
			if id, ok := l.(*ast.Ident); ok && fv.info.ObjectOf(id) == o {
				n++
				if i < len(as.Rhs) {
					if fl, ok := as.Rhs[i].(*ast.FuncLit); ok {
						found = fl
					}
				}
			}
		}
		return true
	})
	if n != 1 {
		return nil
	}
	return found
}

// straightLine: `x, y := e` definitions followed by one return statement.
func straightLine(l []ast.Stmt) bool {
	if len(l) == 0 {
		return false
	}
	for _, s := range l[:len(l)-1] {
		as, ok := s.(*ast.AssignStmt)
		if !ok || as.Tok != token.DEFINE {
			return false
		}
	}
	_, ok := l[len(l)-1].(*ast.ReturnStmt)
	return ok
}

// hofArgsConfined: every function argument of the call is a literal under a contract without modifies clause
// (so that its frame obligations show it writes nothing that existed before) which assigns none of the
// variables it captures. A higher-order extern declared `hof` then has no heap effect at all.
func (fv *FuncVC) hofArgsConfined(call *ast.CallExpr) bool {
	for _, a := range call.Args {
		if _, isFunc := fv.typeOf(a).Underlying().(*types.Signature); !isFunc {
			continue
		}
		fl, ok := ast.Unparen(a).(*ast.FuncLit)
		if !ok {
			return false
		}
		k, n := 0, 0
		ast.Inspect(fv.fi.Decl.Body, func(m ast.Node) bool {
			if l, ok := m.(*ast.FuncLit); ok {
				n++
				if l == fl {
					k = n
				}
			}
			return true
		})
		base := fv.fi.Key
		if i := strings.Index(base, "$lit"); i >= 0 {
			base = base[:i]
		}
		cf := fv.w.Contracts[fv.fi.Pkg.PkgPath]
		if k == 0 || cf == nil {
			return false
		}
		c := cf.Funcs[fmt.Sprintf("%s$lit%d", base, k)]
		if c == nil || len(c.Modifies) > 0 {
			return false
		}
		// no assignment to a captured variable
		declared := map[types.Object]bool{}
		ast.Inspect(fl, func(m ast.Node) bool {
			if id, ok := m.(*ast.Ident); ok {
				if o := fv.info.Defs[id]; o != nil {
					declared[o] = true
				}
			}
			return true
		})
		confined := true
		lhs := func(e ast.Expr) {
			if id, ok := ast.Unparen(e).(*ast.Ident); ok {
				if o := fv.info.ObjectOf(id); o != nil && !declared[o] && id.Name != "_" {
					confined = false
				}
			}
		}
		ast.Inspect(fl.Body, func(m ast.Node) bool {
			switch m := m.(type) {
			case *ast.AssignStmt:
				for _, l := range m.Lhs {
					lhs(l)
				}
			case *ast.IncDecStmt:
				lhs(m.X)
			case *ast.RangeStmt:
				if m.Tok == token.ASSIGN {
					lhs(m.Key)
					if m.Value != nil {
						lhs(m.Value)
					}
				}
			case *ast.UnaryExpr:
				if m.Op == token.AND {
					lhs(m.X) // address of a captured variable escapes
				}
			}
			return true
		})
		if !confined {
			return false
		}
		fv.usedExterns[fmt.Sprintf("hof: the function literal %s$lit%d writes nothing that existed before (its own frame obligations)", shortName(base), k)] = true
	}
	return true
}

// growAlloc: after a call the allocated set is a superset of what it was (no store record: growing the
// allocated set is not a write to anything that existed).
func (fv *FuncVC) growAlloc(st *State) {
	oldAlloc := fv.getHeap(st, "alloc")
	n := fv.th.freshConst("alloc", fv.heapSort["alloc"])
	st.heaps["alloc"] = n
	fv.addFact(st, "(not (select "+n+" nil))")
	fv.addFact(st, fmt.Sprintf("(forall ((r Ref)) (! (=> (select %s r) (select %s r)) :pattern ((select %s r)) :pattern ((select %s r))))", oldAlloc, n, oldAlloc, n))
}

// formatVerbs normalises a fmt format: every verb is rewritten as %s; verbArg[i] is the 1-based operand index the
// i-th verb consumes (explicit %[n] indexes and Go's "next operand" rule), verbPos[i] its offset in the result.
func formatVerbs(format string) (norm string, verbArg []int, verbPos []int) {
	var b strings.Builder
	next := 1
	for i := 0; i < len(format); i++ {
		c := format[i]
		if c != '%' {
			b.WriteByte(c)
			continue
		}
		if i+1 < len(format) && format[i+1] == '%' {
			b.WriteString("%%")
			i++
			continue
		}
		j := i + 1
		arg := 0
		for j < len(format) {
			d := format[j]
			if d == '[' {
				k := strings.IndexByte(format[j:], ']')
				if k < 0 {
					break
				}
				n, err := strconv.Atoi(format[j+1 : j+k])
				if err == nil {
					arg = n
				}
				j += k + 1
				continue
			}
			if strings.ContainsRune("+-# 0123456789.*", rune(d)) {
				j++
				continue
			}
			break
		}
		if j >= len(format) {
			b.WriteString(format[i:])
			break
		}
		if arg == 0 {
			arg = next
		}
		next = arg + 1
		verbPos = append(verbPos, b.Len())
		verbArg = append(verbArg, arg)
		b.WriteString("%s")
		i = j
	}
	return b.String(), verbArg, verbPos
}

func (fv *FuncVC) callVerbObligations(call *ast.CallExpr, full string, args []Val, st *State) {
	tv, ok := fv.info.Types[call.Args[0]]
	if !ok || tv.Value == nil || tv.Value.Kind() != constant.String {
		return
	}
	// runs of white space count as one space (templates are indented freely)
	norm, verbArg, verbPos := formatVerbs(strings.Join(strings.Fields(constant.StringVal(tv.Value)), " "))
	for ci, cv := range fv.fi.Contract.CallVerbs {
		if cv.Callee != full {
			continue
		}
		off := strings.Index(cv.Context, "%*")
		ctxText := strings.Replace(cv.Context, "%*", "%s", 1)
		from := 0
		for {
			p := strings.Index(norm[from:], ctxText)
			if p < 0 {
				break
			}
			p += from
			from = p + 1
			// the verb of interest sits at p+off
			idx := -1
			for vi, vp := range verbPos {
				if vp == p+off {
					idx = verbArg[vi]
				}
			}
			if idx < 0 || idx >= len(args) || idx >= len(call.Args) {
				continue
			}
			if fv.callVerbHits == nil {
				fv.callVerbHits = map[int]int{}
			}
			fv.callVerbHits[ci]++
			want := fv.specEval(cv.Expr, fv.specScope(st, fv.entry, false))
			if args[idx].S == SRef && want.S != SRef && want.GoT != nil {
				if at := fv.typeOf(call.Args[idx]); at != nil {
					want = fv.box(Val{want.T, want.S, at}, at, types.NewInterfaceType(nil, nil), st)
				}
			}
			n := fv.nextOrd("callverb:" + cv.Context)
			fv.oblig(st, "post", fmt.Sprintf("callverb:%s:%q@%d", full, cv.Context, n), fmt.Sprintf("in the text %q emitted by %s, the value printed is %s", cv.Context, full, cv.Text), fv.eqVals(args[idx], want))
		}
	}
}

// callClosureContract applies the contract of a function literal bound to a local variable at a call of that
// variable. Names of the contract resolve to the literal's parameters (bound to the arguments) and otherwise to
// the variables of the enclosing function, which are the very variables the literal captures. Refused (the caller
// falls back to the dynamic-call rule) when the literal assigns a captured variable: only heap effects are
// expressible in `modifies`.
func (fv *FuncVC) callClosureContract(call *ast.CallExpr, fl *ast.FuncLit, st *State) ([]Val, bool) {
	fc, key := fv.closureContract(fl)
	if fc == nil {
		return nil, false
	}
	declared := map[types.Object]bool{}
	ast.Inspect(fl, func(m ast.Node) bool {
		if id, ok := m.(*ast.Ident); ok {
			if o := fv.info.Defs[id]; o != nil {
				declared[o] = true
			}
		}
		return true
	})
	for _, o := range assignedVars(fv.info, fl.Body) {
		if !declared[o] {
			return nil, false
		}
	}
	var params []*ast.Ident
	for _, f := range fl.Type.Params.List {
		params = append(params, f.Names...)
	}
	if len(params) != len(call.Args) {
		return nil, false
	}
	fv.calledContracts[fv.fi.Pkg.PkgPath+"."+key] = true
	bind := map[string]Val{}
	for i, p := range params {
		a := fv.eval(call.Args[i], st)
		bind[p.Name] = Val{a.T, a.S, fv.info.Defs[p].Type()}
	}
	scope := func(cur, old *State, res map[string]Val) *SpecScope {
		sc := fv.specScope(cur, old, res != nil)
		for n, v := range bind {
			sc.bound[n] = v
		}
		for n, v := range res {
			sc.bound[n] = v
		}
		return sc
	}
	ord := fv.nextOrd("call:" + key)
	pre := st.clone()
	if fv.mode == "full" {
		for i, c := range fc.Requires {
			g := fv.specBool(c.Expr, scope(st, pre, nil))
			fv.oblig(st, "pre", fmt.Sprintf("pre:%s@%d:%d", key, ord, i+1), c.Text, g)
			fv.addFact(st, g)
		}
	}
	for _, loc := range fv.modLocs(fc.Modifies, scope(pre, pre, nil)) {
		fv.havocLoc(st, loc)
	}
	fv.applyGhostSets(fc, st, scope(pre, pre, nil))
	if !fc.Pure {
		fv.growAlloc(st)
	}
	sig := fv.info.TypeOf(fl).(*types.Signature)
	var results []Val
	resBind := map[string]Val{}
	for i := 0; i < sig.Results().Len(); i++ {
		r := sig.Results().At(i)
		v := fv.havocVal(st, "res$lit", r.Type())
		results = append(results, v)
		if i == 0 {
			resBind["result"] = v
		}
		resBind[fmt.Sprintf("result%d", i+1)] = v
	}
	for _, c := range fc.Ensures {
		fv.addFact(st, fv.specBool(c.Expr, scope(st, pre, resBind)))
	}
	return results, true
}
