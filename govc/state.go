package main

import (
	"fmt"
	"go/ast"
	"go/token"
	"go/types"
	"sort"
	"strings"
)

// State is the symbolic state along one (merged) path.
type State struct {
	vars   map[types.Object]Val
	heaps  map[string]string // heap name -> current SMT term
	epoch  int
	guard  string
	ghosts map[string]Val
}

func (s *State) clone() *State {
	n := &State{vars: make(map[types.Object]Val, len(s.vars)), heaps: make(map[string]string, len(s.heaps)),
		epoch: s.epoch, guard: s.guard, ghosts: make(map[string]Val, len(s.ghosts))}
	for k, v := range s.vars {
		n.vars[k] = v
	}
	for k, v := range s.heaps {
		n.heaps[k] = v
	}
	for k, v := range s.ghosts {
		n.ghosts[k] = v
	}
	return n
}

func (s *State) dead() bool { return s.guard == "false" }

type Obligation struct {
	Name   string
	Kind   string // post inv pre dec safe frame ordind lock cover
	Func   string
	Pos    string
	Text   string // human description (expression / clause text)
	NFacts int
	NDecls int
	Guard  string
	Goal   string
	Extra  []string
	// filled by the solver driver
	Result  string // unsat sat unknown timeout error
	Solver  string
	TimeS   float64
	Bytes   int
	Model   string
	AllOut  map[string]string
	th      *Theory
	facts   []string
	ExpectSat bool // cover obligations: must be SAT
	Preset    bool // result decided by the generator (rule not applicable / source not covered)
}

type jumpFrame struct {
	label     string
	isLoop    bool
	breaks    []*State
	continues []*State
}

// FuncVC generates the verification conditions of one function.
type FuncVC struct {
	w        *World
	fi       *FuncInfo
	th       *Theory
	info     *types.Info
	facts    []string
	obls     []*Obligation
	entry    *State
	results  []*types.Var
	resNames []types.Object
	frames   []*jumpFrame
	counters map[string]int
	loopOrd  int
	retOrd   int
	defers   []*ast.CallExpr
	heapSort map[string]Sort
	epochCtr int
	unsupported []string // statements/expressions outside the subset (abstracted)
	abstracted  bool
	usedExterns map[string]bool
	unknownCalls map[string]bool
	mode     string // "full" or "safety"
	pendingLabel string
	curPos   token.Pos
	calledContracts map[string]bool
	callResults     map[string]Val // res_<F>_<k>: first result of the k-th call of F (callarg clauses)
	lockHeld map[string]bool
	dry      dryInfo
	lastSpecResults []Val
	callVerbHits    map[int]int // callverb clause index -> number of matching emission sites
	copyOuts        []func() // pending copy-outs of receiver cells (see evalArgs)
	storeLog []storeRec
	softNotes []string
	pureMode int
	lockSnap *State
	execKeys []string
	loopDescCount map[string]int
	litMode bool
	curSig  *types.Signature // signature of the function literal being verified (nil: the declared function)
	freshRefs map[string]bool
}

func (fv *FuncVC) note(format string, a ...interface{}) {
	msg := fmt.Sprintf(format, a...)
	for _, u := range fv.unsupported {
		if u == msg {
			return
		}
	}
	fv.unsupported = append(fv.unsupported, msg)
	fv.abstracted = true
}

func (fv *FuncVC) addFact(st *State, f string) {
	if f == "true" || f == "" || fv.pureMode > 0 {
		return
	}
	fv.facts = append(fv.facts, mkImp(st.guard, f))
}

func (fv *FuncVC) addFactRaw(f string) {
	if f == "true" || f == "" || fv.pureMode > 0 {
		return
	}
	fv.facts = append(fv.facts, f)
}

func (fv *FuncVC) oblig(st *State, kind, name, text, goal string) *Obligation {
	if st.dead() || fv.pureMode > 0 {
		return nil
	}
	if goal == "true" {
		// trivially true: still count as discharged obligation
	}
	o := &Obligation{Name: fv.fi.FullKey() + "#" + name, Kind: kind, Func: fv.fi.FullKey(), Pos: fv.w.pos(fv.curPos),
		Text: text, NFacts: len(fv.facts), Guard: st.guard, Goal: goal, th: fv.th}
	fv.obls = append(fv.obls, o)
	return o
}

func (fv *FuncVC) nextOrd(kind string) int {
	fv.counters[kind]++
	return fv.counters[kind]
}

// ---- heaps

func (fv *FuncVC) heapDecl(name string, s Sort) {
	if old, ok := fv.heapSort[name]; ok && old != s {
		panic(fmt.Sprintf("heap %s sort clash %s vs %s", name, old, s))
	}
	fv.heapSort[name] = s
}

func (fv *FuncVC) getHeap(st *State, name string) string {
	if t, ok := st.heaps[name]; ok {
		return t
	}
	s, ok := fv.heapSort[name]
	if !ok {
		panic("undeclared heap " + name)
	}
	c := fmt.Sprintf("%s@e%d", sanitize(name), st.epoch)
	fv.th.declConst(c, s)
	st.heaps[name] = c
	return c
}

type storeRec struct{ heap, ref string }

// topArgs splits "(op a b c)" into [op a b c] (top-level s-expressions).
func topArgs(t string) []string {
	if len(t) < 2 || t[0] != '(' {
		return nil
	}
	t = t[1 : len(t)-1]
	var out []string
	depth, start := 0, -1
	for i := 0; i < len(t); i++ {
		c := t[i]
		switch {
		case c == '(':
			if depth == 0 && start < 0 {
				start = i
			}
			depth++
		case c == ')':
			depth--
			if depth == 0 {
				out = append(out, t[start:i+1])
				start = -1
			}
		case c == ' ' || c == '\n':
			if depth == 0 && start >= 0 {
				out = append(out, t[start:i])
				start = -1
			}
		default:
			if depth == 0 && start < 0 {
				start = i
			}
		}
	}
	if start >= 0 {
		out = append(out, t[start:])
	}
	return out
}

func (fv *FuncVC) setHeap(st *State, name, term string) {
	if a := topArgs(term); len(a) == 4 && a[0] == "store" {
		fv.storeLog = append(fv.storeLog, storeRec{name, a[2]})
	} else {
		fv.storeLog = append(fv.storeLog, storeRec{name, "*"})
	}
	// name long update chains (SSA style) to keep terms small
	if len(term) > 120 && fv.pureMode == 0 {
		c := fv.th.freshConst(sanitize(name), fv.heapSort[name])
		fv.addFactRaw(mkEq(c, term))
		term = c
	}
	st.heaps[name] = term
}

// named abbreviates a long term by a fresh constant defined equal to it.
func (fv *FuncVC) named(v Val, base string) Val {
	if len(v.T) > 160 && fv.pureMode == 0 {
		c := fv.th.freshConst(base, v.S)
		fv.addFactRaw(mkEq(c, v.T))
		v.T = c
	}
	return v
}

// havocAllHeaps: forget every heap (a call to unknown code); alloc only grows.
func (fv *FuncVC) havocAllHeaps(st *State) {
	oldAlloc := fv.getHeap(st, "alloc")
	fv.storeLog = append(fv.storeLog, storeRec{"*", "*"})
	// nodes of the analysis result are immutable outside package analysis (checked syntactically at load:
	// World.AnalysisImmutable): unknown code called from a generator cannot change them
	keep := map[string]string{}
	if fv.preservesAnalysisNodes() {
		for h := range fv.heapSort {
			if isAnalysisNodeHeap(h) {
				keep[h] = fv.getHeap(st, h)
			}
		}
	}
	fv.epochCtr++
	st.epoch = fv.epochCtr
	st.heaps = keep
	newAlloc := fv.getHeap(st, "alloc")
	fv.addFact(st, "(not (select "+newAlloc+" nil))")
	fv.addFact(st, fmt.Sprintf("(forall ((r Ref)) (! (=> (select %s r) (select %s r)) :pattern ((select %s r)) :pattern ((select %s r))))", oldAlloc, newAlloc, oldAlloc, newAlloc))
}

func (fv *FuncVC) havocHeap(st *State, name string) {
	fv.storeLog = append(fv.storeLog, storeRec{name, "*"})
	if name == "alloc" {
		oldAlloc := fv.getHeap(st, "alloc")
		n := fv.th.freshConst(sanitize(name), fv.heapSort[name])
		st.heaps[name] = n
		fv.addFact(st, "(not (select "+n+" nil))")
		fv.addFact(st, fmt.Sprintf("(forall ((r Ref)) (! (=> (select %s r) (select %s r)) :pattern ((select %s r)) :pattern ((select %s r))))", oldAlloc, n, oldAlloc, n))
		return
	}
	s, ok := fv.heapSort[name]
	if !ok {
		return
	}
	st.heaps[name] = fv.th.freshConst(sanitize(name), s)
}

// heap names
func sliceHeap(elem Sort) string { return "H$" + string(elem) }
func ptrHeap(elem Sort) string   { return "P$" + string(elem) }
func fieldHeap(structSort Sort, field string) string {
	return "F$" + strings.TrimPrefix(string(structSort), "S$") + "." + field
}
func mapDomHeap(k, v Sort) string  { return "MD$" + string(k) + "$" + string(v) }
func mapValHeap(k, v Sort) string  { return "MV$" + string(k) + "$" + string(v) }
func mapCardHeap(k, v Sort) string { return "MC$" + string(k) + "$" + string(v) }

func (fv *FuncVC) declSliceHeap(elem Sort) string {
	n := sliceHeap(elem)
	fv.heapDecl(n, arraySort(SRef, arraySort(SInt, elem)))
	return n
}

// declSliceHeapT: the heap holding the elements of slices of element type et. Slices of reference-like
// elements are kept apart by element TYPE (a []*Union and a []*types.Named never share a backing array),
// which gives much finer frames than one heap for all pointers.
func (fv *FuncVC) declSliceHeapT(et types.Type) string {
	es := fv.th.sortOf(et)
	if es != SRef || et == nil {
		return fv.declSliceHeap(es)
	}
	n := "H$Ref$" + sanitize(types.TypeString(types.Unalias(et), nil))
	fv.heapDecl(n, arraySort(SRef, arraySort(SInt, es)))
	return n
}
func (fv *FuncVC) declPtrHeap(elem Sort) string {
	n := ptrHeap(elem)
	fv.heapDecl(n, arraySort(SRef, elem))
	return n
}
func (fv *FuncVC) declFieldHeap(ss Sort, field string, fs Sort) string {
	n := fieldHeap(ss, field)
	fv.heapDecl(n, arraySort(SRef, fs))
	return n
}
// declMapHeaps: a map is a reference into a domain heap and a value heap. len(m) is the
// cardinality of the domain set (function card$K, axiomatised in cardFun).
func (fv *FuncVC) declMapHeaps(k, v Sort) (string, string, string) {
	d, vv := mapDomHeap(k, v), mapValHeap(k, v)
	fv.heapDecl(d, arraySort(SRef, arraySort(k, SBoolS)))
	fv.heapDecl(vv, arraySort(SRef, arraySort(k, v)))
	return d, vv, fv.cardFun(k)
}

// cardFun declares card$K : (Array K Bool) -> Int with its update axioms.
func (fv *FuncVC) cardFun(k Sort) string {
	name := "card$" + sanitize(string(k))
	th := fv.th
	if th.declSeen[name] {
		return name
	}
	set := arraySort(k, SBoolS)
	th.declFun(name, []Sort{set}, SInt)
	th.axioms = append(th.axioms,
		fmt.Sprintf("(forall ((S %s)) (! (>= (%s S) 0) :pattern ((%s S))))", set, name, name),
		fmt.Sprintf("(forall ((S %s) (x %s)) (! (= (%s (store S x true)) (+ (%s S) (ite (select S x) 0 1))) :pattern ((%s (store S x true)))))", set, k, name, name, name),
		fmt.Sprintf("(forall ((S %s) (x %s)) (! (= (%s (store S x false)) (- (%s S) (ite (select S x) 1 0))) :pattern ((%s (store S x false)))))", set, k, name, name, name),
		fmt.Sprintf("(= (%s %s) 0)", name, th.constArr(k, SBoolS, "false")),
	)
	if k == SInt {
		// interval predicates and the two counting lemmas (finite-set arithmetic; Lean: lemmas/interval_card.lean)
		th.declFun("within$Int", []Sort{set, SInt}, SBoolS)
		th.declFun("full$Int", []Sort{set, SInt}, SBoolS)
		th.declFun("wwit$Int", []Sort{set, SInt}, SInt)
		th.declFun("fwit$Int", []Sort{set, SInt}, SInt)
		th.declFun("tr$Int", []Sort{SInt}, SBoolS)
		th.axioms = append(th.axioms, "(forall ((x Int)) (! (tr$Int x) :pattern ((tr$Int x))))")
		th.axioms = append(th.axioms,
			fmt.Sprintf("(forall ((S %s) (m Int) (x Int)) (! (=> (and (within$Int S m) (select S x)) (and (<= 0 x) (<= x m))) :pattern ((within$Int S m) (select S x))))", set),
			fmt.Sprintf("(forall ((S %s) (m Int)) (! (=> (=> (select S (wwit$Int S m)) (and (<= 0 (wwit$Int S m)) (<= (wwit$Int S m) m))) (within$Int S m)) :pattern ((within$Int S m))))", set),
			fmt.Sprintf("(forall ((S %s) (m Int) (x Int)) (! (=> (and (full$Int S m) (<= 0 x) (<= x m)) (select S x)) :pattern ((full$Int S m) (select S x)) :pattern ((full$Int S m) (tr$Int x))))", set),
			fmt.Sprintf("(forall ((S %s) (m Int)) (! (=> (and (tr$Int (fwit$Int S m)) (=> (and (<= 0 (fwit$Int S m)) (<= (fwit$Int S m) m)) (select S (fwit$Int S m)))) (full$Int S m)) :pattern ((full$Int S m))))", set),
			// pigeonhole: a subset of {0..m} with m+1 elements is {0..m}
			fmt.Sprintf("(forall ((S %s) (m Int)) (! (=> (and (within$Int S m) (= (%s S) (+ m 1))) (full$Int S m)) :pattern ((within$Int S m))))", set, name),
			// the interval {0..m} has m+1 elements
			fmt.Sprintf("(forall ((S %s) (m Int)) (! (=> (and (>= m (- 1)) (within$Int S m) (full$Int S m)) (= (%s S) (+ m 1))) :pattern ((within$Int S m) (%s S))))", set, name, name),
		)
	}
	return name
}

// freshRef allocates a new reference.
func (fv *FuncVC) freshRef(st *State, base string) string {
	r := fv.th.freshConst(base, SRef)
	fv.freshRefs[r] = true
	al := fv.getHeap(st, "alloc")
	fv.addFact(st, mkAnd(mkNot(mkEq(r, "nil")), mkNot(sx("select", al, r))))
	fv.setHeap(st, "alloc", sx("store", al, r, "true"))
	return r
}

// allocFact: values read from parameters / heaps are allocated (or nil).
func (fv *FuncVC) allocFact(st *State, v Val, depth int) {
	switch v.S {
	case SRef:
		al := fv.getHeap(st, "alloc")
		fv.addFact(st, mkOr(mkEq(v.T, "nil"), sx("select", al, v.T)))
		fv.dynTypeFact(st, v)
	case SSlice:
		al := fv.getHeap(st, "alloc")
		fv.addFact(st, mkAnd(sx(">=", sx("sl_len", v.T), "0"),
			mkOr(mkAnd(mkEq(sx("sl_ref", v.T), "nil"), mkEq(sx("sl_len", v.T), "0")), sx("select", al, sx("sl_ref", v.T)))))
		if v.GoT != nil {
			if arr, ok := types.Unalias(v.GoT).Underlying().(*types.Array); ok {
				fv.addFact(st, mkEq(sx("sl_len", v.T), intLit(arr.Len())))
			}
		}
	default:
		if si, ok := fv.th.structOf[v.S]; ok && depth < 3 {
			for _, f := range si.Fields {
				if f.S == SRef || f.S == SSlice || fv.th.structOf[f.S] != nil {
					fv.allocFact(st, Val{sx(fv.th.fieldAcc(si.Name, f.Name), v.T), f.S, f.GoT}, depth+1)
				}
			}
		}
	}
}

// rangeFact: integer values of bounded Go types are in range.
func (fv *FuncVC) rangeFact(st *State, v Val) {
	if v.S != SInt || v.GoT == nil {
		return
	}
	lo, hi, ok := intRange(v.GoT)
	if !ok {
		return
	}
	fv.addFact(st, mkAnd(sx("<=", lo, v.T), sx("<=", v.T, hi)))
}

func intRange(t types.Type) (string, string, bool) {
	b, ok := types.Unalias(t).Underlying().(*types.Basic)
	if !ok {
		return "", "", false
	}
	switch b.Kind() {
	case types.Int, types.Int64:
		return "(- 9223372036854775808)", "9223372036854775807", true
	case types.Int32:
		return "(- 2147483648)", "2147483647", true
	case types.Int16:
		return "(- 32768)", "32767", true
	case types.Int8:
		return "(- 128)", "127", true
	case types.Uint8:
		return "0", "255", true
	case types.Uint16:
		return "0", "65535", true
	case types.Uint32:
		return "0", "4294967295", true
	case types.Uint, types.Uint64, types.Uintptr:
		return "0", "18446744073709551615", true
	}
	return "", "", false
}

// havocVal returns a fresh unconstrained value of Go type t (with range/alloc facts).
func (fv *FuncVC) havocVal(st *State, base string, t types.Type) Val {
	s := fv.th.sortOf(t)
	v := Val{fv.th.freshConst(base, s), s, t}
	fv.rangeFact(st, v)
	fv.allocFact(st, v, 0)
	return v
}

// ---- merging

func (fv *FuncVC) merge(states []*State) *State {
	var live []*State
	for _, s := range states {
		if s != nil && !s.dead() {
			live = append(live, s)
		}
	}
	if len(live) == 0 {
		d := &State{vars: map[types.Object]Val{}, heaps: map[string]string{}, guard: "false", ghosts: map[string]Val{}}
		return d
	}
	if len(live) == 1 {
		return live[0]
	}
	out := live[0].clone()
	var gs []string
	for _, s := range live {
		gs = append(gs, s.guard)
	}
	out.guard = mkOr(gs...)
	// epochs: if they differ, materialise all heaps of all states first
	maxEpoch := 0
	sameEpoch := true
	for _, s := range live {
		if s.epoch != live[0].epoch {
			sameEpoch = false
		}
		if s.epoch > maxEpoch {
			maxEpoch = s.epoch
		}
	}
	heapNames := map[string]bool{}
	for _, s := range live {
		for h := range s.heaps {
			heapNames[h] = true
		}
	}
	if !sameEpoch {
		// every declared heap may differ
		for h := range fv.heapSort {
			heapNames[h] = true
		}
		fv.epochCtr++
		out.epoch = fv.epochCtr
	}
	hn := make([]string, 0, len(heapNames))
	for h := range heapNames {
		hn = append(hn, h)
	}
	sort.Strings(hn)
	for _, h := range hn {
		terms := make([]string, len(live))
		same := true
		for i, s := range live {
			terms[i] = fv.getHeap(s, h)
			if terms[i] != terms[0] {
				same = false
			}
		}
		if same {
			out.heaps[h] = terms[0]
			continue
		}
		n := fv.th.freshConst(sanitize(h)+"$m", fv.heapSort[h])
		for i, s := range live {
			fv.addFactRaw(mkImp(s.guard, mkEq(n, terms[i])))
		}
		out.heaps[h] = n
	}
	// variables
	varSet := map[types.Object]bool{}
	for _, s := range live {
		for o := range s.vars {
			varSet[o] = true
		}
	}
	var objs []types.Object
	for o := range varSet {
		objs = append(objs, o)
	}
	sort.Slice(objs, func(i, j int) bool {
		if objs[i].Pos() != objs[j].Pos() {
			return objs[i].Pos() < objs[j].Pos()
		}
		return objs[i].Name() < objs[j].Name()
	})
	for _, o := range objs {
		var first *Val
		same := true
		inAll := true
		for _, s := range live {
			v, ok := s.vars[o]
			if !ok {
				inAll = false
				continue
			}
			if first == nil {
				vv := v
				first = &vv
			} else if v.T != first.T {
				same = false
			}
		}
		if !inAll {
			delete(out.vars, o) // out of scope after the join
			continue
		}
		if same {
			out.vars[o] = *first
			continue
		}
		n := fv.th.freshConst(o.Name()+"$m", first.S)
		for _, s := range live {
			fv.addFactRaw(mkImp(s.guard, mkEq(n, s.vars[o].T)))
		}
		out.vars[o] = Val{n, first.S, first.GoT}
	}
	// ghosts
	for name := range out.ghosts {
		same := true
		inAll := true
		for _, s := range live {
			g, ok := s.ghosts[name]
			if !ok {
				inAll = false
				break
			}
			if g.T != out.ghosts[name].T {
				same = false
			}
		}
		if !inAll {
			delete(out.ghosts, name)
			continue
		}
		if !same {
			g0 := out.ghosts[name]
			n := fv.th.freshConst(name+"$m", g0.S)
			for _, s := range live {
				fv.addFactRaw(mkImp(s.guard, mkEq(n, s.ghosts[name].T)))
			}
			out.ghosts[name] = Val{n, g0.S, g0.GoT}
		}
	}
	return out
}

// withGuard returns a clone of st whose guard is strengthened by c.
func (st *State) withGuard(c string) *State {
	n := st.clone()
	n.guard = mkAnd(st.guard, c)
	return n
}

func isAnalysisNodeHeap(h string) bool {
	return strings.HasPrefix(h, "F$"+sanitize(repoModule)+".analysis.") || strings.HasPrefix(h, "H$S$"+sanitize(repoModule)+".analysis.") || strings.HasPrefix(h, "H$Ref$ptr_"+sanitize(repoModule)+".analysis.") || strings.HasPrefix(h, "H$Ref$"+sanitize(repoModule)+".analysis.")
}

func (fv *FuncVC) preservesAnalysisNodes() bool {
	return fv.w.AnalysisImmutable && fv.fi.Pkg.PkgPath != repoModule+"/analysis"
}
