package main

import (
	"fmt"
	"go/ast"
	"go/types"
	"sort"
	"strings"
)

type FuncResult struct {
	FI          *FuncInfo
	Obls        []*Obligation
	Unsupported []string
	Abstracted  bool
	Err         string // contract / generation error (shape change)
	UsedExterns []string
	Unknown     []string
	Called      []string
	Th          *Theory
	Facts       []string
	Mode        string
	TermNotProved bool
}

// genFunc generates the obligations of one function. mode: "full" (contracts) or "safety".
func genFunc(w *World, fi *FuncInfo, mode string) (res *FuncResult) {
	th := newTheory(w.Externs)
	th.installConstPointees(w)
	fv := &FuncVC{w: w, fi: fi, th: th, info: fi.Pkg.TypesInfo, counters: map[string]int{}, heapSort: map[string]Sort{},
		usedExterns: map[string]bool{}, unknownCalls: map[string]bool{}, mode: mode, calledContracts: map[string]bool{}, freshRefs: map[string]bool{}, loopDescCount: map[string]int{}}
	res = &FuncResult{FI: fi, Th: th, Mode: mode}
	defer func() {
		if r := recover(); r != nil {
			if se, ok := r.(specErr); ok {
				res.Err = "contract error: " + string(se)
				res.Obls = nil
				return
			}
			panic(r)
		}
	}()
	fv.heapDecl("alloc", arraySort(SRef, SBoolS))
	st := &State{vars: map[types.Object]Val{}, heaps: map[string]string{}, guard: "true", ghosts: map[string]Val{}}
	fv.addFactRaw("(not (select " + fv.getHeap(st, "alloc") + " nil))")
	sig := fi.Obj.Type().(*types.Signature)
	// receiver and parameters
	bindParam := func(o *types.Var) {
		if o == nil || o.Name() == "_" || o.Name() == "" {
			return
		}
		v := fv.havocVal(st, o.Name(), o.Type())
		st.vars[o] = v
		if mode == "safety" {
			if _, isPtr := types.Unalias(o.Type()).Underlying().(*types.Pointer); isPtr {
				fv.addFact(st, mkNot(mkEq(v.T, "nil")))
			}
		}
	}
	if fi.Decl.Recv != nil {
		for _, f := range fi.Decl.Recv.List {
			for _, n := range f.Names {
				if o, ok := fv.info.Defs[n].(*types.Var); ok {
					bindParam(o)
				}
			}
		}
	}
	for _, f := range fi.Decl.Type.Params.List {
		for _, n := range f.Names {
			if o, ok := fv.info.Defs[n].(*types.Var); ok {
				bindParam(o)
			}
		}
	}
	// results
	for i := 0; i < sig.Results().Len(); i++ {
		r := sig.Results().At(i)
		var o types.Object = r
		if r.Name() == "" || r.Name() == "_" {
			o = types.NewVar(fi.Decl.Pos(), fi.Pkg.Types, fmt.Sprintf("result$%d", i+1), r.Type())
		}
		fv.resNames = append(fv.resNames, o)
		st.vars[o] = Val{th.zero(r.Type()), th.sortOf(r.Type()), r.Type()}
	}
	// pre-declare heaps named in the contract (so that old() and frames see them)
	fv.installGlobalAxioms(st)
	fv.entry = st.clone()
	// requires
	if fi.Contract != nil && mode == "full" {
		for _, c := range fi.Contract.Requires {
			fv.addFact(st, fv.specBool(c.Expr, fv.specScope(st, fv.entry, false)))
		}
	}
	if fi.Contract != nil && mode == "safety" {
		// safety mode uses the requires of thin contracts too
		for _, c := range fi.Contract.Requires {
			fv.addFact(st, fv.specBool(c.Expr, fv.specScope(st, fv.entry, false)))
		}
	}
	fv.curPos = fi.Decl.Pos()
	// vacuity guard: precondition + axioms satisfiable
	if o := fv.oblig(st, "cover", "cover:entry", "precondition satisfiable", "false"); o != nil {
		o.ExpectSat = true
	}
	end := fv.execBlock(fi.Decl.Body.List, st)
	if !end.dead() {
		fv.curPos = fi.Decl.Body.Rbrace
		fv.finish(end, "end")
	}
	if fi.Contract != nil && mode == "full" {
		for ci, cv := range fi.Contract.CallVerbs {
			if fv.callVerbHits[ci] == 0 {
				specFail("callverb %s %q: no call of %s emits this text any more", cv.Callee, cv.Context, cv.Callee)
			}
		}
	}
	res.Obls = fv.obls
	res.Facts = fv.facts
	for _, o := range res.Obls {
		o.facts = fv.facts[:o.NFacts]
	}
	res.Unsupported = fv.unsupported
	res.Abstracted = fv.abstracted
	for k := range th.cpUsed {
		fv.usedExterns[k] = true
	}
	for k := range fv.usedExterns {
		res.UsedExterns = append(res.UsedExterns, k)
	}
	sort.Strings(res.UsedExterns)
	for k := range fv.unknownCalls {
		res.Unknown = append(res.Unknown, k)
	}
	sort.Strings(res.Unknown)
	for k := range fv.calledContracts {
		res.Called = append(res.Called, k)
	}
	sort.Strings(res.Called)
	// termination: every loop needs a decreases clause (range loops terminate by construction)
	ast.Inspect(fi.Decl.Body, func(n ast.Node) bool {
		if _, ok := n.(*ast.ForStmt); ok {
			res.TermNotProved = true
		}
		return true
	})
	if fi.Contract != nil {
		nFor, nDec := 0, 0
		ast.Inspect(fi.Decl.Body, func(n ast.Node) bool {
			if _, ok := n.(*ast.ForStmt); ok {
				nFor++
			}
			return true
		})
		for _, lc := range fi.Contract.Loops {
			if lc.Decreases != nil {
				nDec++
			}
		}
		for k, lc := range fi.Contract.LoopsByDesc {
			if lc.Decreases != nil && strings.HasPrefix(k, "for.") {
				nDec++
			}
		}
		if nDec >= nFor {
			res.TermNotProved = false
		}
	}
	return res
}

// installGlobalAxioms evaluates the axioms of the extern spec files (heap independent).
func (fv *FuncVC) installGlobalAxioms(st *State) {
	for _, ax := range fv.w.Externs.Axioms {
		sc := fv.externScope(st, nil, nil, nil)
		sc.noHeap = true
		func() {
			defer func() {
				if r := recover(); r != nil {
					if se, ok := r.(specErr); ok {
						panic(specErr(fmt.Sprintf("axiom %s: %s", ax.Line, string(se))))
					}
					panic(r)
				}
			}()
			fv.th.axioms = append(fv.th.axioms, fv.specBool(ax.Expr, sc))
		}()
	}
}

func (o *Obligation) smt() string {
	q := o.th.query(o.facts, o.Guard, o.Goal, o.Extra)
	return q
}

func shortName(full string) string {
	return strings.TrimPrefix(full, repoModule+"/")
}

// litInfo builds a pseudo FuncInfo for the k-th function literal of fi, whose contract is keyed "<Key>$lit<k>".
func litInfo(w *World, fi *FuncInfo, k int) (*FuncInfo, *ast.FuncLit) {
	var found *ast.FuncLit
	n := 0
	ast.Inspect(fi.Decl.Body, func(m ast.Node) bool {
		if fl, ok := m.(*ast.FuncLit); ok {
			n++
			if n == k {
				found = fl
			}
		}
		return true
	})
	if found == nil {
		return nil, nil
	}
	key := fmt.Sprintf("%s$lit%d", fi.Key, k)
	cf := w.Contracts[fi.Pkg.PkgPath]
	li := &FuncInfo{Pkg: fi.Pkg, Decl: fi.Decl, Obj: fi.Obj, Key: key, CF: cf}
	if cf != nil {
		li.Contract = cf.Funcs[key]
	}
	return li, found
}

// genLit generates the obligations of a function literal under contract: its parameters and the variables it
// captures are arbitrary (plus the requires clauses), its results are result1..n.
func genLit(w *World, li *FuncInfo, fl *ast.FuncLit) (res *FuncResult) {
	th := newTheory(w.Externs)
	th.installConstPointees(w)
	fv := &FuncVC{w: w, fi: li, th: th, info: li.Pkg.TypesInfo, counters: map[string]int{}, heapSort: map[string]Sort{},
		usedExterns: map[string]bool{}, unknownCalls: map[string]bool{}, mode: "full", calledContracts: map[string]bool{},
		freshRefs: map[string]bool{}, loopDescCount: map[string]int{}}
	res = &FuncResult{FI: li, Th: th, Mode: "full"}
	defer func() {
		if r := recover(); r != nil {
			if se, ok := r.(specErr); ok {
				res.Err = "contract error: " + string(se)
				res.Obls = nil
				return
			}
			panic(r)
		}
	}()
	fv.heapDecl("alloc", arraySort(SRef, SBoolS))
	st := &State{vars: map[types.Object]Val{}, heaps: map[string]string{}, guard: "true", ghosts: map[string]Val{}}
	fv.addFactRaw("(not (select " + fv.getHeap(st, "alloc") + " nil))")
	sig := fv.info.TypeOf(fl).(*types.Signature)
	fv.curSig = sig
	for _, f := range fl.Type.Params.List {
		for _, name := range f.Names {
			if o, ok := fv.info.Defs[name].(*types.Var); ok {
				st.vars[o] = fv.havocVal(st, o.Name(), o.Type())
			}
		}
	}
	for i := 0; i < sig.Results().Len(); i++ {
		r := sig.Results().At(i)
		var o types.Object = r
		if r.Name() == "" || r.Name() == "_" {
			o = types.NewVar(fl.Pos(), li.Pkg.Types, fmt.Sprintf("result$%d", i+1), r.Type())
		}
		fv.resNames = append(fv.resNames, o)
		st.vars[o] = Val{th.zero(r.Type()), th.sortOf(r.Type()), r.Type()}
	}
	fv.installGlobalAxioms(st)
	fv.entry = st.clone()
	// captured variables: arbitrary
	save := li.Contract
	li.Contract = nil // bindFreeVars would apply the requires before the entry snapshot exists
	fv.bindFreeVars(fl.Body, st)
	li.Contract = save
	fv.entry = st.clone()
	if li.Contract != nil {
		for _, c := range li.Contract.Requires {
			fv.addFact(st, fv.specBool(c.Expr, fv.specScope(st, fv.entry, false)))
		}
	}
	fv.curPos = fl.Pos()
	if o := fv.oblig(st, "cover", "cover:entry", "precondition satisfiable", "false"); o != nil {
		o.ExpectSat = true
	}
	end := fv.execBlock(fl.Body.List, st)
	if !end.dead() {
		fv.curPos = fl.Body.Rbrace
		fv.finish(end, "end")
	}
	res.Obls = fv.obls
	for _, o := range res.Obls {
		o.facts = fv.facts[:o.NFacts]
	}
	res.Unsupported = fv.unsupported
	res.Abstracted = fv.abstracted
	for k := range th.cpUsed {
		fv.usedExterns[k] = true
	}
	for k := range fv.usedExterns {
		res.UsedExterns = append(res.UsedExterns, k)
	}
	for k := range fv.unknownCalls {
		res.Unknown = append(res.Unknown, k)
	}
	for k := range fv.calledContracts {
		res.Called = append(res.Called, k)
	}
	return res
}
