package main

// Contract language: lexer, parser and AST.
//
// Expression syntax is Go-like with spec extensions:
//   forall i, j int :: P      exists k string :: P
//   A ==> B   A <==> B   old(e)   result, result1..n
//   len(x)  x[i]  x[a:b]  x.f  f(args)  x.m(args)
//   has(m, k)  (map domain)    contents(s) (the Array Int T behind a slice)
//   cond ? a : b  is written  ite(cond, a, b)

import (
	"fmt"
	"strconv"
	"strings"
	"unicode"
)

type tokKind int

const (
	tEOF tokKind = iota
	tIdent
	tInt
	tString
	tChar
	tOp
)

type stok struct {
	kind tokKind
	text string
	pos  int
}

type lexer struct {
	src  string
	toks []stok
}

var ops3 = []string{"<==>", "==>", "::", "&&", "||", "==", "!=", "<=", ">=", "++"}

func lex(src string) ([]stok, error) {
	var toks []stok
	i := 0
	for i < len(src) {
		c := src[i]
		switch {
		case c == ' ' || c == '\t' || c == '\n' || c == '\r':
			i++
		case unicode.IsLetter(rune(c)) || c == '_':
			j := i
			for j < len(src) && (unicode.IsLetter(rune(src[j])) || unicode.IsDigit(rune(src[j])) || src[j] == '_' || src[j] == '$') {
				j++
			}
			toks = append(toks, stok{tIdent, src[i:j], i})
			i = j
		case unicode.IsDigit(rune(c)):
			j := i
			for j < len(src) && (unicode.IsDigit(rune(src[j])) || src[j] == 'x' || (src[j] >= 'a' && src[j] <= 'f') || (src[j] >= 'A' && src[j] <= 'F')) {
				j++
			}
			toks = append(toks, stok{tInt, src[i:j], i})
			i = j
		case c == '"' || c == '`':
			j := i + 1
			for j < len(src) && src[j] != c {
				if c == '"' && src[j] == '\\' {
					j++
				}
				j++
			}
			if j >= len(src) {
				return nil, fmt.Errorf("unterminated string at %d", i)
			}
			s, err := strconv.Unquote(src[i : j+1])
			if err != nil {
				return nil, fmt.Errorf("bad string %s: %v", src[i:j+1], err)
			}
			toks = append(toks, stok{tString, s, i})
			i = j + 1
		case c == '\'':
			j := i + 1
			for j < len(src) && src[j] != '\'' {
				if src[j] == '\\' {
					j++
				}
				j++
			}
			if j >= len(src) {
				return nil, fmt.Errorf("unterminated char at %d", i)
			}
			r, _, _, err := strconv.UnquoteChar(src[i+1:j], '\'')
			if err != nil {
				return nil, err
			}
			toks = append(toks, stok{tChar, strconv.Itoa(int(r)), i})
			i = j + 1
		default:
			matched := false
			for _, op := range ops3 {
				if strings.HasPrefix(src[i:], op) {
					toks = append(toks, stok{tOp, op, i})
					i += len(op)
					matched = true
					break
				}
			}
			if !matched {
				toks = append(toks, stok{tOp, string(c), i})
				i++
			}
		}
	}
	toks = append(toks, stok{tEOF, "", len(src)})
	return toks, nil
}

// ---- AST

type SNode interface{ String() string }

type (
	SIdent  struct{ Name string }
	SIntLit struct{ V string }
	SStrLit struct{ V string }
	SBool   struct{ V bool }
	SUnary  struct {
		Op string
		X  SNode
	}
	SBinary struct {
		Op   string
		X, Y SNode
	}
	SQuant struct {
		Forall bool
		Vars   []string
		Types  []string // per variable: Go type text, or spec type (seq[T], set[T])
		Body   SNode
		Trig   []SNode // optional explicit triggers
	}
	SCall struct {
		Fun  SNode // SIdent or SSelect
		Args []SNode
	}
	SIndex struct {
		X, I SNode
	}
	SSliceX struct {
		X, Lo, Hi SNode // Lo/Hi may be nil
	}
	SSelect struct {
		X   SNode
		Sel string
	}
	SOld struct{ X SNode }
	// type assertion test: x.(T) written is(x, T) ; T kept as text
	SIs struct {
		X    SNode
		Type string
	}
	SAs struct {
		X    SNode
		Type string
	}
)

func (n *SIdent) String() string  { return n.Name }
func (n *SIntLit) String() string { return n.V }
func (n *SStrLit) String() string { return strconv.Quote(n.V) }
func (n *SBool) String() string   { return fmt.Sprint(n.V) }
func (n *SUnary) String() string  { return n.Op + n.X.String() }
func (n *SBinary) String() string {
	return "(" + n.X.String() + " " + n.Op + " " + n.Y.String() + ")"
}
func (n *SQuant) String() string {
	q := "exists"
	if n.Forall {
		q = "forall"
	}
	var vs []string
	for i, v := range n.Vars {
		vs = append(vs, v+" "+n.Types[i])
	}
	return "(" + q + " " + strings.Join(vs, ", ") + " :: " + n.Body.String() + ")"
}
func (n *SCall) String() string {
	var a []string
	for _, x := range n.Args {
		a = append(a, x.String())
	}
	return n.Fun.String() + "(" + strings.Join(a, ", ") + ")"
}
func (n *SIndex) String() string { return n.X.String() + "[" + n.I.String() + "]" }
func (n *SSliceX) String() string {
	lo, hi := "", ""
	if n.Lo != nil {
		lo = n.Lo.String()
	}
	if n.Hi != nil {
		hi = n.Hi.String()
	}
	return n.X.String() + "[" + lo + ":" + hi + "]"
}
func (n *SSelect) String() string { return n.X.String() + "." + n.Sel }
func (n *SOld) String() string    { return "old(" + n.X.String() + ")" }
func (n *SIs) String() string     { return "is(" + n.X.String() + ", " + n.Type + ")" }
func (n *SAs) String() string     { return "as(" + n.X.String() + ", " + n.Type + ")" }

// ---- parser

type parser struct {
	toks []stok
	p    int
	src  string
}

func parseSpecExpr(src string) (n SNode, err error) {
	toks, err := lex(src)
	if err != nil {
		return nil, err
	}
	ps := &parser{toks: toks, src: src}
	defer func() {
		if r := recover(); r != nil {
			if pe, ok := r.(parseErr); ok {
				err = fmt.Errorf("%s in %q", string(pe), src)
				return
			}
			panic(r)
		}
	}()
	n = ps.expr()
	if ps.peek().kind != tEOF {
		ps.fail("unexpected %q", ps.peek().text)
	}
	return n, nil
}

type parseErr string

func (ps *parser) fail(f string, a ...interface{}) {
	panic(parseErr(fmt.Sprintf(f, a...) + fmt.Sprintf(" at offset %d", ps.peek().pos)))
}
func (ps *parser) peek() stok { return ps.toks[ps.p] }
func (ps *parser) next() stok { t := ps.toks[ps.p]; ps.p++; return t }
func (ps *parser) isOp(s string) bool {
	t := ps.peek()
	return t.kind == tOp && t.text == s
}
func (ps *parser) accept(s string) bool {
	if ps.isOp(s) {
		ps.p++
		return true
	}
	return false
}
func (ps *parser) expect(s string) {
	if !ps.accept(s) {
		ps.fail("expected %q, got %q", s, ps.peek().text)
	}
}

func (ps *parser) expr() SNode { return ps.iff() }

func (ps *parser) iff() SNode {
	x := ps.implies()
	for ps.accept("<==>") {
		y := ps.implies()
		x = &SBinary{"<==>", x, y}
	}
	return x
}

func (ps *parser) implies() SNode {
	x := ps.or()
	if ps.accept("==>") {
		y := ps.implies() // right assoc
		return &SBinary{"==>", x, y}
	}
	return x
}

func (ps *parser) or() SNode {
	x := ps.and()
	for ps.accept("||") {
		x = &SBinary{"||", x, ps.and()}
	}
	return x
}

func (ps *parser) and() SNode {
	x := ps.cmp()
	for ps.accept("&&") {
		x = &SBinary{"&&", x, ps.cmp()}
	}
	return x
}

func (ps *parser) cmp() SNode {
	x := ps.add()
	for {
		t := ps.peek()
		if t.kind == tOp && (t.text == "==" || t.text == "!=" || t.text == "<" || t.text == "<=" || t.text == ">" || t.text == ">=") {
			ps.next()
			y := ps.add()
			x = &SBinary{t.text, x, y}
			continue
		}
		return x
	}
}

func (ps *parser) add() SNode {
	x := ps.mul()
	for {
		t := ps.peek()
		if t.kind == tOp && (t.text == "+" || t.text == "-" || t.text == "++") {
			ps.next()
			x = &SBinary{t.text, x, ps.mul()}
			continue
		}
		return x
	}
}

func (ps *parser) mul() SNode {
	x := ps.unary()
	for {
		t := ps.peek()
		if t.kind == tOp && (t.text == "*" || t.text == "/" || t.text == "%") {
			ps.next()
			x = &SBinary{t.text, x, ps.unary()}
			continue
		}
		return x
	}
}

func (ps *parser) unary() SNode {
	if ps.accept("!") {
		return &SUnary{"!", ps.unary()}
	}
	if ps.accept("-") {
		return &SUnary{"-", ps.unary()}
	}
	return ps.postfix()
}

func (ps *parser) postfix() SNode {
	x := ps.primary()
	for {
		switch {
		case ps.accept("."):
			t := ps.next()
			if t.kind != tIdent {
				ps.fail("expected selector")
			}
			x = &SSelect{x, t.text}
		case ps.accept("("):
			var args []SNode
			if !ps.isOp(")") {
				for {
					args = append(args, ps.expr())
					if !ps.accept(",") {
						break
					}
				}
			}
			ps.expect(")")
			x = &SCall{x, args}
		case ps.accept("["):
			if ps.accept(":") {
				var hi SNode
				if !ps.isOp("]") {
					hi = ps.expr()
				}
				ps.expect("]")
				x = &SSliceX{x, nil, hi}
				continue
			}
			i := ps.expr()
			if ps.accept(":") {
				var hi SNode
				if !ps.isOp("]") {
					hi = ps.expr()
				}
				ps.expect("]")
				x = &SSliceX{x, i, hi}
				continue
			}
			ps.expect("]")
			x = &SIndex{x, i}
		default:
			return x
		}
	}
}

// typeText consumes tokens up to (not including) a top-level stop operator
// and returns the source text.
func (ps *parser) typeText(stops ...string) string {
	start := ps.peek().pos
	depth := 0
	for {
		t := ps.peek()
		if t.kind == tEOF {
			break
		}
		if t.kind == tOp {
			if depth == 0 {
				stop := false
				for _, s := range stops {
					if t.text == s {
						stop = true
					}
				}
				if stop {
					break
				}
			}
			if t.text == "(" || t.text == "[" {
				depth++
			}
			if t.text == ")" || t.text == "]" {
				depth--
			}
		}
		ps.next()
	}
	return strings.TrimSpace(ps.src[start:ps.peek().pos])
}

func (ps *parser) primary() SNode {
	t := ps.next()
	switch t.kind {
	case tInt, tChar:
		return &SIntLit{t.text}
	case tString:
		return &SStrLit{t.text}
	case tIdent:
		switch t.text {
		case "true":
			return &SBool{true}
		case "false":
			return &SBool{false}
		case "forall", "exists":
			var vars, vtypes []string
			for {
				// a group: v1, v2 T
				var group []string
				for {
					v := ps.next()
					if v.kind != tIdent {
						ps.fail("expected bound variable")
					}
					group = append(group, v.text)
					if !ps.accept(",") {
						break
					}
				}
				ty := ps.typeText("::", ",")
				for _, g := range group {
					vars = append(vars, g)
					vtypes = append(vtypes, ty)
				}
				if !ps.accept(",") {
					break
				}
			}
			ps.expect("::")
			var trig []SNode
			// optional trigger:  { e1, e2 }
			if ps.accept("{") {
				for {
					trig = append(trig, ps.expr())
					if !ps.accept(",") {
						break
					}
				}
				ps.expect("}")
			}
			body := ps.expr()
			return &SQuant{Forall: t.text == "forall", Vars: vars, Types: vtypes, Body: body, Trig: trig}
		case "old":
			ps.expect("(")
			x := ps.expr()
			ps.expect(")")
			return &SOld{x}
		case "is", "as":
			ps.expect("(")
			x := ps.expr()
			ps.expect(",")
			ty := ps.typeText(")")
			ps.expect(")")
			if t.text == "is" {
				return &SIs{x, ty}
			}
			return &SAs{x, ty}
		}
		return &SIdent{t.text}
	case tOp:
		if t.text == "(" {
			x := ps.expr()
			ps.expect(")")
			return x
		}
	}
	ps.p--
	ps.fail("unexpected stok %q", t.text)
	return nil
}

// ---- contract files

type Clause struct {
	Kind string // requires ensures invariant decreases index visited modifies assert assume
	Loop int    // for loop clauses
	Text string
	Expr SNode
	Line string // file:line for diagnostics
}

type FuncContract struct {
	Key      string // e.g. "commonPrefix", "(*Enum).setIsIota", "sortBy.Swap"
	Requires []*Clause
	Ensures  []*Clause
	Loops    map[int]*LoopContract
	LoopsByDesc map[string]*LoopContract // keyed by "<ranged expression>.<k>" or "for.<k>" (k-th such loop)
	Modifies []string // heap names or "*"
	Pure     bool     // function may be called inside specs (its ensures define result)
	PureOnly map[int]bool // when set: only these result indices are functions of the arguments
	Trusted  bool     // body not verified (assumption, listed)
	Pin      string   // trusted contracts are pinned to a hash of the function they were written for
	Asserts  map[int][]*Clause // ghost asserts keyed by statement ordinal? (unused for now)
	Props    []string // property ids this contract serves
	Diag     bool     // explicit panics allowed (default true)
	NoSafety bool // the run-time-error obligations of this function are not part of this claim (they belong to the C18 sweep)
	CallVerbs []*CallVerbClause
	CallArgs []*CallArgClause // callarg <callee>@<k> <i> <expr>: the i-th argument (0-based) of the k-th call to callee equals expr
	GhostSets [][2]string // ghostset <name> <expr>: at every exit the ghost flag <name> of object <expr> becomes 1
	Line     string
}

// CallVerbClause: `callverb <callee> "<context with one %s>" <expr>`: in every call of callee whose format literal
// contains the context (all verbs written as %s), the argument consumed by that verb equals expr. At least one call
// must match. Unlike callarg this ties the value to its place in the emitted text, not to an argument position.
type CallVerbClause struct {
	Callee  string
	Context string
	Text    string
	Expr    SNode
}

type CallArgClause struct {
	Callee string
	Ord    int
	Idx    int
	Text   string
	Expr   SNode
}

type LoopContract struct {
	Index      string // name for the hidden index of a range loop
	Visited    string // name for the visited set of a map range loop
	Coll       string // name for the (once evaluated) ranged collection
	Invariants []*Clause
	EndAsserts []*Clause // lemmas about one iteration, proved at the end of the loop body (may use athead(e))
	Decreases  *Clause
	Ordind     []*Clause
}

type PredDef struct {
	Name   string
	Params []PredParam
	Ret    string // type text
	Body   SNode
	Rec    bool
	Text   string
}

type PredParam struct{ Name, Type string }

type ContractFile struct {
	Pkg   string
	Funcs map[string]*FuncContract
	Preds map[string]*PredDef
	Order []string
}

func parseContractText(pkg, fname, text string) (*ContractFile, error) {
	cf := &ContractFile{Pkg: pkg, Funcs: map[string]*FuncContract{}, Preds: map[string]*PredDef{}}
	var cur *FuncContract
	var lastClause *Clause
	var lastPred *PredDef
	var pendingText *string
	flush := func() error {
		if lastClause != nil && lastClause.Expr == nil && lastClause.Text != "" {
			e, err := parseSpecExpr(lastClause.Text)
			if err != nil {
				return fmt.Errorf("%s: %v", lastClause.Line, err)
			}
			lastClause.Expr = e
		}
		if lastPred != nil && lastPred.Body == nil {
			e, err := parseSpecExpr(lastPred.Text)
			if err != nil {
				return fmt.Errorf("pred %s: %v", lastPred.Name, err)
			}
			lastPred.Body = e
		}
		lastClause, lastPred, pendingText = nil, nil, nil
		return nil
	}
	lines := strings.Split(text, "\n")
	for ln, raw := range lines {
		l := strings.TrimSpace(raw)
		if !strings.HasPrefix(l, "//@") {
			continue
		}
		l = strings.TrimSpace(strings.TrimPrefix(l, "//@"))
		if l == "" || strings.HasPrefix(l, "--") {
			continue
		}
		where := fmt.Sprintf("%s:%d", fname, ln+1)
		word, rest := splitWord(l)
		switch word {
		case "func":
			if err := flush(); err != nil {
				return nil, err
			}
			key := strings.TrimSpace(rest)
			cur = &FuncContract{Key: key, Loops: map[int]*LoopContract{}, LoopsByDesc: map[string]*LoopContract{}, Line: where, Diag: true}
			if _, dup := cf.Funcs[key]; dup {
				return nil, fmt.Errorf("%s: duplicate contract for %s", where, key)
			}
			cf.Funcs[key] = cur
			cf.Order = append(cf.Order, key)
		case "pred", "recfunc":
			if err := flush(); err != nil {
				return nil, err
			}
			pd, err := parsePredHeader(rest)
			if err != nil {
				return nil, fmt.Errorf("%s: %v", where, err)
			}
			pd.Rec = word == "recfunc"
			cf.Preds[pd.Name] = pd
			lastPred = pd
			pendingText = &pd.Text
		case "requires", "ensures":
			if err := flush(); err != nil {
				return nil, err
			}
			if cur == nil {
				return nil, fmt.Errorf("%s: clause outside func", where)
			}
			c := &Clause{Kind: word, Text: rest, Line: where}
			if word == "requires" {
				cur.Requires = append(cur.Requires, c)
			} else {
				cur.Ensures = append(cur.Ensures, c)
			}
			lastClause = c
			pendingText = &c.Text
		case "modifies":
			if err := flush(); err != nil {
				return nil, err
			}
			for _, m := range strings.Split(rest, ",") {
				cur.Modifies = append(cur.Modifies, strings.TrimSpace(m))
			}
		case "guarded", "puremethod":
			if err := flush(); err != nil {
				return nil, err
			}
		case "callarg":
			if err := flush(); err != nil {
				return nil, err
			}
			// callarg fmt.Sprintf@2 5 len(choix)
			tgt, rest2 := splitWord(rest)
			idxs, expr := splitWord(rest2)
			at := strings.LastIndex(tgt, "@")
			if at < 0 {
				return nil, fmt.Errorf("%s: callarg needs <callee>@<k>", where)
			}
			ord, err1 := strconv.Atoi(tgt[at+1:])
			idx, err2 := strconv.Atoi(idxs)
			e, err3 := parseSpecExpr(expr)
			if err1 != nil || err2 != nil || err3 != nil {
				return nil, fmt.Errorf("%s: bad callarg clause", where)
			}
			cur.CallArgs = append(cur.CallArgs, &CallArgClause{Callee: tgt[:at], Ord: ord, Idx: idx, Text: expr, Expr: e})
		case "callverb":
			if err := flush(); err != nil {
				return nil, err
			}
			tgt, rest2 := splitWord(rest)
			rest2 = strings.TrimSpace(rest2)
			if !strings.HasPrefix(rest2, "\"") {
				return nil, fmt.Errorf("%s: callverb needs a quoted context", where)
			}
			end := 1
			for end < len(rest2) && (rest2[end] != '"' || rest2[end-1] == '\\') {
				end++
			}
			if end >= len(rest2) {
				return nil, fmt.Errorf("%s: callverb: unterminated context", where)
			}
			ctxs, errq := strconv.Unquote(rest2[:end+1])
			expr := strings.TrimSpace(rest2[end+1:])
			e, erre := parseSpecExpr(expr)
			// the verb of interest is written %* when the context holds several verbs; a single %s stands for it otherwise
			if strings.Count(ctxs, "%*") == 0 && strings.Count(ctxs, "%s") == 1 {
				ctxs = strings.Replace(ctxs, "%s", "%*", 1)
			}
			if errq != nil || erre != nil || strings.Count(ctxs, "%*") != 1 {
				return nil, fmt.Errorf("%s: bad callverb clause (the context must contain exactly one %%* or exactly one %%s)", where)
			}
			cur.CallVerbs = append(cur.CallVerbs, &CallVerbClause{Callee: tgt, Context: ctxs, Text: expr, Expr: e})
		case "ghostset":
			if err := flush(); err != nil {
				return nil, err
			}
			nm, ex := splitWord(rest)
			cur.GhostSets = append(cur.GhostSets, [2]string{nm, ex})
		case "nosafety":
			cur.NoSafety = true
		case "pure":
			// `pure` : every result is a function of the arguments; `pure result2`: only the listed results are
			// (the others may be freshly allocated objects)
			cur.Pure = true
			for _, f := range strings.Fields(rest) {
				if n, err := strconv.Atoi(strings.TrimPrefix(f, "result")); err == nil && n >= 1 {
					if cur.PureOnly == nil {
						cur.PureOnly = map[int]bool{}
					}
					cur.PureOnly[n-1] = true
				}
			}
		case "trusted":
			cur.Trusted = true
			// trusted pin=<hash>: the assumed contract was written for that version of the function
			for _, f := range strings.Fields(rest) {
				if strings.HasPrefix(f, "pin=") {
					cur.Pin = strings.TrimPrefix(f, "pin=")
				}
			}
		case "props":
			cur.Props = strings.Fields(rest)
		case "loop":
			if err := flush(); err != nil {
				return nil, err
			}
			nstr, rest2 := splitWord(rest)
			n, err := strconv.Atoi(nstr)
			var lc *LoopContract
			if err != nil {
				// descriptor: <ranged expression text>.<k> or for.<k>
				if !strings.Contains(nstr, ".") {
					return nil, fmt.Errorf("%s: bad loop key %q", where, nstr)
				}
				lc = cur.LoopsByDesc[nstr]
				if lc == nil {
					lc = &LoopContract{}
					cur.LoopsByDesc[nstr] = lc
				}
			} else {
				lc = cur.Loops[n]
				if lc == nil {
					lc = &LoopContract{}
					cur.Loops[n] = lc
				}
			}
			kind, body := splitWord(rest2)
			switch kind {
			case "index":
				lc.Index = strings.TrimSpace(body)
			case "visited":
				lc.Visited = strings.TrimSpace(body)
			case "coll":
				lc.Coll = strings.TrimSpace(body)
			case "invariant":
				c := &Clause{Kind: "invariant", Loop: n, Text: body, Line: where}
				lc.Invariants = append(lc.Invariants, c)
				lastClause = c
				pendingText = &c.Text
			case "endassert":
				c := &Clause{Kind: "endassert", Loop: n, Text: body, Line: where}
				lc.EndAsserts = append(lc.EndAsserts, c)
				lastClause = c
				pendingText = &c.Text
			case "decreases":
				c := &Clause{Kind: "decreases", Loop: n, Text: body, Line: where}
				lc.Decreases = c
				lastClause = c
				pendingText = &c.Text
			default:
				return nil, fmt.Errorf("%s: unknown loop clause %q", where, kind)
			}
		default:
			// continuation line
			if pendingText == nil {
				return nil, fmt.Errorf("%s: unknown clause %q", where, word)
			}
			*pendingText += " " + l
		}
	}
	if err := flush(); err != nil {
		return nil, err
	}
	return cf, nil
}

func splitWord(s string) (string, string) {
	s = strings.TrimSpace(s)
	i := strings.IndexAny(s, " \t")
	if i < 0 {
		return s, ""
	}
	return s[:i], strings.TrimSpace(s[i+1:])
}

// pred name(a T, b U) R = body
func parsePredHeader(s string) (*PredDef, error) {
	op := strings.Index(s, "(")
	if op < 0 {
		return nil, fmt.Errorf("bad pred header")
	}
	name := strings.TrimSpace(s[:op])
	depth := 0
	cl := -1
	for i := op; i < len(s); i++ {
		if s[i] == '(' {
			depth++
		}
		if s[i] == ')' {
			depth--
			if depth == 0 {
				cl = i
				break
			}
		}
	}
	if cl < 0 {
		return nil, fmt.Errorf("bad pred header")
	}
	pd := &PredDef{Name: name}
	params := strings.TrimSpace(s[op+1 : cl])
	if params != "" {
		for _, p := range splitTop(params, ',') {
			n, t := splitWord(p)
			pd.Params = append(pd.Params, PredParam{n, t})
		}
	}
	rest := strings.TrimSpace(s[cl+1:])
	eq := strings.Index(rest, "=")
	if eq < 0 {
		return nil, fmt.Errorf("pred %s: missing '='", name)
	}
	pd.Ret = strings.TrimSpace(rest[:eq])
	if pd.Ret == "" {
		pd.Ret = "bool"
	}
	pd.Text = strings.TrimSpace(rest[eq+1:])
	return pd, nil
}

func splitTop(s string, sep byte) []string {
	var out []string
	depth := 0
	start := 0
	for i := 0; i < len(s); i++ {
		switch s[i] {
		case '(', '[':
			depth++
		case ')', ']':
			depth--
		default:
			if s[i] == sep && depth == 0 {
				out = append(out, strings.TrimSpace(s[start:i]))
				start = i + 1
			}
		}
	}
	out = append(out, strings.TrimSpace(s[start:]))
	return out
}
