package main

// SMT term construction, sort registry and the background theory (prelude).

import (
	"fmt"
	"go/types"
	"sort"
	"strings"
)

type Sort string

const (
	SInt   Sort = "Int"
	SBoolS Sort = "Bool"
	SStr   Sort = "Str"
	SRef   Sort = "Ref"
	SSlice Sort = "Slice"
)

// Val is a symbolic value: SMT term + its sort + (when known) its Go type.
type Val struct {
	T   string
	S   Sort
	GoT types.Type
}

func sx(op string, args ...string) string {
	return "(" + op + " " + strings.Join(args, " ") + ")"
}

func mkAnd(xs ...string) string {
	var ys []string
	for _, x := range xs {
		if x == "true" || x == "" {
			continue
		}
		if x == "false" {
			return "false"
		}
		ys = append(ys, x)
	}
	switch len(ys) {
	case 0:
		return "true"
	case 1:
		return ys[0]
	}
	return sx("and", ys...)
}

func mkOr(xs ...string) string {
	var ys []string
	for _, x := range xs {
		if x == "false" || x == "" {
			continue
		}
		if x == "true" {
			return "true"
		}
		ys = append(ys, x)
	}
	switch len(ys) {
	case 0:
		return "false"
	case 1:
		return ys[0]
	}
	return sx("or", ys...)
}

func mkNot(x string) string {
	if x == "true" {
		return "false"
	}
	if x == "false" {
		return "true"
	}
	if strings.HasPrefix(x, "(not ") {
		return x[5 : len(x)-1]
	}
	return sx("not", x)
}

func mkImp(a, b string) string {
	if a == "true" {
		return b
	}
	if a == "false" || b == "true" {
		return "true"
	}
	return sx("=>", a, b)
}

func mkIte(c, a, b string) string {
	if c == "true" {
		return a
	}
	if c == "false" {
		return b
	}
	if a == b {
		return a
	}
	return sx("ite", c, a, b)
}

func mkEq(a, b string) string {
	if a == b {
		return "true"
	}
	return sx("=", a, b)
}

func intLit(n int64) string {
	if n < 0 {
		return fmt.Sprintf("(- %d)", -n)
	}
	return fmt.Sprintf("%d", n)
}

func intLitStr(s string) string {
	if strings.HasPrefix(s, "-") {
		return "(- " + s[1:] + ")"
	}
	return s
}

// ---- Theory: global per VC-generation run (one per function under verification)

type Theory struct {
	cps      []cpEntry
	cpUsed   map[string]bool
	globDone map[string]bool
	sorts     []string          // datatype declarations in order
	sortSeen  map[string]bool   // by SMT name
	structOf  map[Sort]*structInfo
	decls     []string          // declare-const / declare-fun (ordered)
	declSeen  map[string]bool
	axioms    []string          // global axioms (asserted in every query)
	strLits   map[string]string // literal -> const name
	tags      map[string]int    // dynamic type tag per Go type string
	tagList   []string
	fresh     int
	externs   *ExternSpecs
	arraySeen map[string]bool
}

type structInfo struct {
	Name   string // SMT datatype name
	Go     *types.Struct
	Named  types.Type
	Fields []structField
}

type structField struct {
	Name string
	S    Sort
	GoT  types.Type
}

func newTheory(ex *ExternSpecs) *Theory {
	return &Theory{sortSeen: map[string]bool{}, structOf: map[Sort]*structInfo{}, declSeen: map[string]bool{}, globDone: map[string]bool{}, cpUsed: map[string]bool{},
		strLits: map[string]string{}, tags: map[string]int{}, externs: ex, arraySeen: map[string]bool{}}
}

func (th *Theory) freshName(base string) string {
	th.fresh++
	return fmt.Sprintf("%s!%d", sanitize(base), th.fresh)
}

func sanitize(s string) string {
	var b strings.Builder
	for _, r := range s {
		switch {
		case r >= 'a' && r <= 'z', r >= 'A' && r <= 'Z', r >= '0' && r <= '9', r == '_', r == '.', r == '$', r == '!', r == '@':
			b.WriteRune(r)
		case r == '*':
			b.WriteString("ptr_")
		case r == '/':
			b.WriteString(".")
		case r == '[':
			b.WriteString("_L")
		case r == ']':
			b.WriteString("R_")
		default:
			b.WriteString("_")
		}
	}
	return b.String()
}

func (th *Theory) declare(name string, decl string) {
	if th.declSeen[name] {
		return
	}
	th.declSeen[name] = true
	th.decls = append(th.decls, decl)
}

func (th *Theory) declConst(name string, s Sort) string {
	first := !th.declSeen[name]
	th.declare(name, fmt.Sprintf("(declare-const %s %s)", name, s))
	if first {
		// every version of a field heap agrees with the initialiser on never-assigned fields of global objects
		for _, e := range th.cps {
			if strings.HasPrefix(name, e.prefix) && len(name) > len(e.prefix) && strings.ContainsRune("@!$", rune(name[len(e.prefix)])) {
				th.declConst(e.glob, SRef)
				th.cpUsed[e.note] = true
				th.axioms = append(th.axioms, fmt.Sprintf("(= (select %s %s) %s)", name, e.glob, e.value))
			}
		}
	}
	return name
}

type cpEntry struct{ prefix, glob, value, note string }

// installConstPointees: see World.ConstPointees.
func (th *Theory) installConstPointees(w *World) {
	for _, c := range w.ConstPointees {
		th.cps = append(th.cps, cpEntry{
			prefix: sanitize(fieldHeap(th.sortOf(c.Struct), c.Field)),
			glob:   "glob$" + sanitize(c.Global.Pkg().Path()+"."+c.Global.Name()),
			value:  c.Value,
			note:   fmt.Sprintf("constant global object: %s.%s.%s == %s in every state (declared at %s with a literal initialiser; no statement of the repository assigns the variable, that field of that type, or a whole value of that type through a pointer: checked syntactically at load)", c.Global.Pkg().Name(), c.Global.Name(), c.Field, c.Value, c.Pos),
		})
	}
}

func (th *Theory) freshConst(base string, s Sort) string {
	n := th.freshName(base)
	return th.declConst(n, s)
}

func (th *Theory) declFun(name string, args []Sort, ret Sort) string {
	var a []string
	for _, x := range args {
		a = append(a, string(x))
	}
	th.declare(name, fmt.Sprintf("(declare-fun %s (%s) %s)", name, strings.Join(a, " "), ret))
	return name
}

// tagOf returns the dynamic type tag for a Go type (by its string).
func (th *Theory) tagOf(t types.Type) int {
	k := types.TypeString(t, nil)
	if v, ok := th.tags[k]; ok {
		return v
	}
	v := len(th.tags) + 1
	th.tags[k] = v
	th.tagList = append(th.tagList, k)
	return v
}

// sortOf maps a Go type to an SMT sort.
func (th *Theory) sortOf(t types.Type) Sort {
	t = types.Unalias(t)
	if isBuilderType(t) {
		return SStr // a strings.Builder value is modelled by the string written so far
	}
	switch u := t.Underlying().(type) {
	case *types.Basic:
		info := u.Info()
		switch {
		case info&types.IsBoolean != 0:
			return SBoolS
		case info&types.IsInteger != 0:
			return SInt
		case info&types.IsString != 0:
			return SStr
		case info&types.IsFloat != 0:
			return "Real"
		case u.Kind() == types.UntypedNil:
			return SRef
		case u.Kind() == types.UnsafePointer:
			return SRef
		}
		return SRef
	case *types.Slice:
		th.sortOf(u.Elem())
		return SSlice
	case *types.Array:
		// fixed arrays treated like slices of constant length
		th.sortOf(u.Elem())
		return SSlice
	case *types.Struct:
		return th.structSort(t, u)
	case *types.Pointer, *types.Map, *types.Interface, *types.Signature, *types.Chan:
		return SRef
	case *types.Tuple:
		return SRef
	case *types.TypeParam:
		return SRef
	}
	return SRef
}

func (th *Theory) structSort(t types.Type, st *types.Struct) Sort {
	var name string
	if n, ok := t.(*types.Named); ok {
		name = "S$" + sanitize(n.Obj().Pkg().Path()+"."+n.Obj().Name())
		if n.TypeArgs() != nil && n.TypeArgs().Len() > 0 {
			name = "S$" + sanitize(types.TypeString(n, nil))
		}
	} else {
		name = "S$anon$" + sanitize(types.TypeString(st, nil))
	}
	s := Sort(name)
	if th.sortSeen[name] {
		return s
	}
	th.sortSeen[name] = true
	si := &structInfo{Name: name, Go: st, Named: t}
	th.structOf[s] = si
	// opaque foreign structs with unexported fields (sync.Mutex, strings.Builder,...) : keep fields anyway
	var fs []string
	for i := 0; i < st.NumFields(); i++ {
		f := st.Field(i)
		fsrt := th.sortOf(f.Type())
		si.Fields = append(si.Fields, structField{f.Name(), fsrt, f.Type()})
		fs = append(fs, fmt.Sprintf("(%s %s)", th.fieldAcc(name, f.Name()), fsrt))
	}
	if len(fs) == 0 {
		th.sorts = append(th.sorts, fmt.Sprintf("(declare-datatypes ((%s 0)) (((mk$%s))))", name, name))
	} else {
		th.sorts = append(th.sorts, fmt.Sprintf("(declare-datatypes ((%s 0)) (((mk$%s %s))))", name, name, strings.Join(fs, " ")))
	}
	return s
}

func (th *Theory) fieldAcc(structName, field string) string {
	return structName + "." + sanitize(field)
}

func (th *Theory) mkStruct(s Sort, fields []string) string {
	if len(fields) == 0 {
		return "mk$" + string(s)
	}
	return sx("mk$"+string(s), fields...)
}

// zero value term of a Go type
func (th *Theory) zero(t types.Type) string {
	s := th.sortOf(t)
	switch s {
	case SInt:
		return "0"
	case SBoolS:
		return "false"
	case SStr:
		return th.strLit("")
	case SRef:
		return "nil"
	case SSlice:
		if arr, ok := types.Unalias(t).Underlying().(*types.Array); ok {
			// fixed array: a value; modelled as an anonymous slice with fixed length (contents unconstrained -> zero not modelled)
			return sx("mk_slice", "nil", intLit(arr.Len()))
		}
		return "(mk_slice nil 0)"
	case "Real":
		return "0.0"
	}
	if si, ok := th.structOf[s]; ok {
		var fs []string
		for _, f := range si.Fields {
			fs = append(fs, th.zero(f.GoT))
		}
		return th.mkStruct(s, fs)
	}
	panic("zero: unknown sort " + string(s))
}

func (th *Theory) strLit(s string) string {
	if c, ok := th.strLits[s]; ok {
		return c
	}
	name := fmt.Sprintf("str$%d", len(th.strLits))
	if s == "" {
		name = "str$empty"
	}
	th.strLits[s] = name
	th.declConst(name, SStr)
	ax := []string{mkEq(sx("slen", name), intLit(int64(len(s))))}
	for i := 0; i < len(s); i++ {
		ax = append(ax, mkEq(sx("sat", name, intLit(int64(i))), intLit(int64(s[i]))))
	}
	th.axioms = append(th.axioms, mkAnd(ax...))
	return name
}

// constArr returns an array term mapping every index to val. cvc5 only accepts (as const ..)
// on values, so non-literal element terms get a named array with a quantified definition.
func (th *Theory) constArr(k, v Sort, val string) string {
	if val == "true" || val == "false" || (len(val) > 0 && (val[0] >= '0' && val[0] <= '9')) {
		return fmt.Sprintf("((as const %s) %s)", arraySort(k, v), val)
	}
	key := "constarr|" + string(k) + "|" + string(v) + "|" + val
	if c, ok := th.strLits[key]; ok {
		return c
	}
	name := fmt.Sprintf("constarr$%d", len(th.strLits))
	th.strLits[key] = name
	th.declConst(name, arraySort(k, v))
	th.axioms = append(th.axioms, fmt.Sprintf("(forall ((k %s)) (! (= (select %s k) %s) :pattern ((select %s k))))", k, name, val, name))
	return name
}

func arraySort(k, v Sort) Sort { return Sort(fmt.Sprintf("(Array %s %s)", k, v)) }

const preludeCore = `
(declare-sort Str 0)
(declare-sort Ref 0)
(declare-const nil Ref)
(declare-datatypes ((Slice 0)) (((mk_slice (sl_ref Ref) (sl_len Int)))))
(declare-fun slen (Str) Int)
(declare-fun sat (Str Int) Int)
(declare-fun sub (Str Int Int) Str)
(declare-fun cat (Str Str) Str)
(declare-fun str1 (Int) Str)
(declare-fun dyntype (Ref) Int)
(declare-fun itoa (Int) Str)
(declare-fun slt (Str Str) Bool)
(assert (forall ((s Str)) (! (>= (slen s) 0) :pattern ((slen s)))))
(assert (forall ((s Str) (i Int)) (! (and (<= 0 (sat s i)) (<= (sat s i) 255)) :pattern ((sat s i)))))
(assert (forall ((s Str) (a Int) (b Int)) (! (=> (and (<= 0 a) (<= a b) (<= b (slen s))) (= (slen (sub s a b)) (- b a))) :pattern ((sub s a b)))))
(assert (forall ((s Str) (a Int) (b Int) (k Int)) (! (=> (and (<= 0 a) (<= a b) (<= b (slen s)) (<= 0 k) (< k (- b a))) (= (sat (sub s a b) k) (sat s (+ a k)))) :pattern ((sat (sub s a b) k)))))
(assert (forall ((s Str) (t Str)) (! (= (slen (cat s t)) (+ (slen s) (slen t))) :pattern ((cat s t)))))
(assert (forall ((s Str) (t Str) (k Int)) (! (=> (and (<= 0 k) (< k (slen s))) (= (sat (cat s t) k) (sat s k))) :pattern ((sat (cat s t) k)))))
(assert (forall ((s Str) (t Str) (k Int)) (! (=> (and (<= (slen s) k) (< k (+ (slen s) (slen t)))) (= (sat (cat s t) k) (sat t (- k (slen s))))) :pattern ((sat (cat s t) k)))))
(assert (forall ((c Int)) (! (and (= (slen (str1 c)) 1) (=> (and (<= 0 c) (<= c 255)) (= (sat (str1 c) 0) c))) :pattern ((str1 c)))))
; extensionality: equal length and equal bytes => equal (skolemised witness seqdiff)
(declare-fun seqdiff (Str Str) Int)
(assert (forall ((s Str) (t Str)) (! (=> (and (= (slen s) (slen t)) (=> (and (<= 0 (seqdiff s t)) (< (seqdiff s t) (slen s))) (= (sat s (seqdiff s t)) (sat t (seqdiff s t))))) (= s t)) :pattern ((seqdiff s t)))))
(declare-fun streq (Str Str) Bool)
(assert (forall ((s Str) (t Str)) (! (= (streq s t) (= s t)) :pattern ((streq s t)))))
(assert (forall ((s Str) (t Str)) (! (=> (and (= (slen s) (slen t)) (=> (and (<= 0 (seqdiff s t)) (< (seqdiff s t) (slen s))) (= (sat s (seqdiff s t)) (sat t (seqdiff s t))))) (= s t)) :pattern ((streq s t)))))
(define-fun godiv ((a Int) (b Int)) Int (ite (>= a 0) (ite (> b 0) (div a b) (- (div a (- b)))) (ite (> b 0) (- (div (- a) b)) (div (- a) (- b)))))
(define-fun gomod ((a Int) (b Int)) Int (- a (* b (godiv a b))))
; slt : strict total order on strings (lexicographic detail is not modelled)
(assert (forall ((a Str)) (! (not (slt a a)) :pattern ((slt a a)))))
(assert (forall ((a Str) (b Str)) (! (or (slt a b) (slt b a) (= a b)) :pattern ((slt a b)))))
(assert (forall ((a Str) (b Str)) (! (not (and (slt a b) (slt b a))) :pattern ((slt a b)))))
(assert (forall ((a Str) (b Str) (c Str)) (! (=> (and (slt a b) (slt b c)) (slt a c)) :pattern ((slt a b) (slt b c)))))
`

// build the full SMT-LIB text for one query
func (th *Theory) query(facts []string, guard, goal string, extra []string) string {
	var b strings.Builder
	b.WriteString("(set-option :produce-models true)\n(set-logic ALL)\n")
	b.WriteString(preludeCore)
	for _, s := range th.sorts {
		b.WriteString(s)
		b.WriteByte('\n')
	}
	for _, d := range th.decls {
		b.WriteString(d)
		b.WriteByte('\n')
	}
	for _, a := range th.axioms {
		b.WriteString("(assert " + a + ")\n")
	}
	for _, a := range extra {
		b.WriteString("(assert " + a + ")\n")
	}
	for _, f := range facts {
		b.WriteString("(assert " + f + ")\n")
	}
	if guard != "" && guard != "true" {
		b.WriteString("(assert " + guard + ")\n")
	}
	b.WriteString("(assert " + mkNot(goal) + ")\n")
	b.WriteString("(check-sat)\n")
	return b.String()
}

func sortedKeys[V any](m map[string]V) []string {
	var ks []string
	for k := range m {
		ks = append(ks, k)
	}
	sort.Strings(ks)
	return ks
}
