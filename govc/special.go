package main

func ordindObligations(cc *checkCtx, w *World) *extraResult { return nil }
func safetySweep(cc *checkCtx, w *World) *extraResult      { return nil }
