package main

// C07 — determinism. Sequential Go is deterministic except at an enumerable set of sources
// (range over a map, select, go statements, calls into math/rand / time.Now / ...). They are
// enumerated from the typed AST of every loaded package on every run; each must be covered by a
// rule in /verif/contracts/ordind.json, and the rule's obligations are generated from the real code:
//
//   commute       any two iterations of the loop body commute (symbolic double execution:
//                 body(k1);body(k2) and body(k2);body(k1) from the same arbitrary state end in equal
//                 states) — then the loop's effect does not depend on the iteration order
//   sorted-after  the body only appends to one slice, which the next statement sorts with a total
//                 order (sort.Strings, or sort.Slice whose comparator is total on the appended elements)
//   argued        covered by an argument written in DESIGN.md and by the always-run bounded
//                 determinism harness only: NOT counted as a discharged obligation
//
// A source without an entry is a failed obligation (ordind:uncovered).

import (
	"go/constant"
	"sort"
	"crypto/sha256"
	"encoding/json"
	"fmt"
	"go/ast"
	"go/token"
	"go/types"
	"os"
	"path/filepath"
	"strings"
)

type ordindEntry struct {
	Func string `json:"func"` // short function key, e.g. analysis.NewLinker
	Loop string `json:"loop"` // descriptor: <ranged expr>.<k>  /  go.<k>
	Rule string `json:"rule"`
	Note string `json:"note"`
	// argued entries are pinned to the code they were written for: sha256 of the printed declaration of the enclosing function
	Pin string `json:"pin,omitempty"`
}

func funcPin(w *World, fi *FuncInfo) string {
	var b strings.Builder
	printerFprint(&b, w.Fset, fi.Decl)
	sum := sha256.Sum256([]byte(b.String()))
	return fmt.Sprintf("%x", sum[:8])
}

func loadOrdindTable() []ordindEntry {
	var t []ordindEntry
	data, err := os.ReadFile(filepath.Join(verifDir, "contracts", "ordind.json"))
	if err == nil {
		if err := json.Unmarshal(data, &t); err != nil {
			fmt.Fprintln(os.Stderr, "ordind.json:", err)
		}
	}
	return t
}

func presetObligation(name, fn, pos, text, result string) *Obligation {
	return &Obligation{Name: name, Kind: "ordind", Func: fn, Pos: pos, Text: text, Result: result, Preset: true, Goal: "false"}
}

func ordindObligations(cc *checkCtx, w *World) *extraResult {
	ex := &extraResult{Coverage: map[string]interface{}{}}
	table := loadOrdindTable()
	srcs := enumerateNondeterminism(w)
	// descriptors
	count := map[string]int{}
	var argued, proved []string
	for _, s := range srcs {
		desc := ""
		switch s.Kind {
		case "maprange":
			desc = strings.ReplaceAll(s.Text, " ", "")
		default:
			desc = s.Kind
			if s.Kind == "call" {
				desc = "call:" + s.Text
			}
		}
		key := s.Func + "|" + desc
		count[key]++
		desc = fmt.Sprintf("%s.%d", desc, count[key])
		short := shortName(s.Func)
		var ent *ordindEntry
		for i := range table {
			if table[i].Func == short && table[i].Loop == desc {
				ent = &table[i]
			}
		}
		oname := s.Func + "#ordind:" + desc
		if ent == nil {
			ex.Obls = append(ex.Obls, presetObligation(oname+":uncovered", s.Func, s.Pos,
				fmt.Sprintf("source of nondeterminism (%s over %s) not covered by any order-independence rule", s.Kind, s.Text), "uncovered"))
			continue
		}
		switch ent.Rule {
		case "commute":
			obls := commuteObligations(w, s, oname)
			ex.Obls = append(ex.Obls, obls...)
			proved = append(proved, short+" "+desc+" [commute]")
		case "sorted-after":
			obls := sortedAfterObligations(w, s, oname)
			ex.Obls = append(ex.Obls, obls...)
			proved = append(proved, short+" "+desc+" [sorted-after]")
		case "argued":
			// the written argument is about the code as it was: any change of the enclosing function invalidates it
			if pin := funcPin(w, s.FI); ent.Pin != pin {
				ex.Obls = append(ex.Obls, presetObligation(oname+":argued:stale", s.Func, s.Pos,
					fmt.Sprintf("the order-independence argument recorded for this loop was written for a different version of %s (pin %s, now %s)", short, ent.Pin, pin), "stale-argument"))
			}
			argued = append(argued, short+" "+desc+": "+ent.Note)
		default:
			ex.Obls = append(ex.Obls, presetObligation(oname+":rule", s.Func, s.Pos, "unknown rule "+ent.Rule, "not-generated"))
		}
		ex.Funcs = append(ex.Funcs, short+"#"+desc)
	}
	// hidden shared state between generators: the analysis result handed to every generator is not written by any
	// of them (assignments, in-place sorts / copies, stores through local aliases of its slices and maps)
	if w.AnalysisImmutable {
		ex.Obls = append(ex.Obls, &Obligation{Name: repoModule + "/analysis#immutable-outside-analysis", Func: repoModule + "/analysis", Kind: "post", Text: "no statement outside package analysis writes a node of the analysis result", Result: "unsat", Solver: "syntactic", Preset: true})
	} else {
		ex.Obls = append(ex.Obls, presetObligation(repoModule+"/analysis#immutable-outside-analysis", repoModule+"/analysis", strings.Join(w.ImmutabilityNotes, "; "),
			"a generator writes a node of the analysis result (shared by every generator of the process): "+strings.Join(w.ImmutabilityNotes, "; "), "shared-state-written"))
	}
	ex.Coverage["nondeterminism_sources"] = len(srcs)
	ex.Coverage["order_independence_proved"] = proved
	ex.Coverage["argued_not_proved"] = argued
	ex.Assumptions = append(ex.Assumptions,
		"sequential Go is deterministic apart from the enumerated sources (range over map, select, go, math/rand, time.Now, ...); sort.Slice/sort.Sort are deterministic functions of their input",
		"determinism of packages.Load / go list and of the external formatters is assumed",
		fmt.Sprintf("%d of %d sources are covered only by an argument (DESIGN §4 C07) and the bounded run-twice harness, not by a discharged obligation", len(argued), len(srcs)))
	return ex
}

// newScratchVC prepares a FuncVC for checking a fragment of fi (no contracts involved).
func newScratchVC(w *World, fi *FuncInfo) (*FuncVC, *State) {
	th := newTheory(w.Externs)
	th.installConstPointees(w)
	fv := &FuncVC{w: w, fi: fi, th: th, info: fi.Pkg.TypesInfo, counters: map[string]int{}, heapSort: map[string]Sort{},
		usedExterns: map[string]bool{}, unknownCalls: map[string]bool{}, mode: "full", calledContracts: map[string]bool{},
		freshRefs: map[string]bool{}, loopDescCount: map[string]int{}}
	fv.heapDecl("alloc", arraySort(SRef, SBoolS))
	st := &State{vars: map[types.Object]Val{}, heaps: map[string]string{}, guard: "true", ghosts: map[string]Val{}}
	fv.addFactRaw("(not (select " + fv.getHeap(st, "alloc") + " nil))")
	fv.installGlobalAxioms(st)
	fv.entry = st.clone()
	return fv, st
}

// bindFreeVars gives every variable used (but not declared) inside n an arbitrary value.
func (fv *FuncVC) bindFreeVars(n ast.Node, st *State) {
	declared := map[types.Object]bool{}
	ast.Inspect(n, func(m ast.Node) bool {
		if id, ok := m.(*ast.Ident); ok {
			if o := fv.info.Defs[id]; o != nil {
				declared[o] = true
			}
		}
		return true
	})
	ast.Inspect(n, func(m ast.Node) bool {
		id, ok := m.(*ast.Ident)
		if !ok {
			return true
		}
		o, ok := fv.info.Uses[id].(*types.Var)
		if !ok || declared[o] || o.IsField() {
			return true
		}
		if o.Parent() != nil && o.Pkg() != nil && o.Parent() == o.Pkg().Scope() {
			return true // package-level variable
		}
		if _, done := st.vars[o]; !done {
			st.vars[o] = fv.havocVal(st, o.Name(), o.Type())
		}
		return true
	})
	// the function's preconditions that only speak about variables bound here
	if fv.fi.Contract != nil {
		for _, c := range fv.fi.Contract.Requires {
			func() {
				defer func() { recover() }()
				nf := len(fv.facts)
				g := fv.specBool(c.Expr, fv.specScope(st, fv.entry, false))
				fv.facts = fv.facts[:nf]
				fv.addFact(st, g)
			}()
		}
	}
}

func containsReturnOrBreakOut(body *ast.BlockStmt) string {
	bad := ""
	var walk func(n ast.Node, loopDepth int)
	walk = func(n ast.Node, loopDepth int) {
		ast.Inspect(n, func(m ast.Node) bool {
			if m == nil || bad != "" {
				return false
			}
			switch x := m.(type) {
			case *ast.FuncLit:
				return false
			case *ast.ReturnStmt:
				bad = "return inside the loop body"
				return false
			case *ast.BranchStmt:
				if x.Tok == token.BREAK && loopDepth == 0 {
					bad = "break out of the loop"
				}
				if x.Tok == token.GOTO {
					bad = "goto"
				}
			case *ast.ForStmt:
				if m != n {
					walk(x.Body, loopDepth+1)
					return false
				}
			case *ast.RangeStmt:
				if m != n {
					walk(x.Body, loopDepth+1)
					return false
				}
			case *ast.SwitchStmt, *ast.TypeSwitchStmt, *ast.SelectStmt:
				if m != n {
					var b *ast.BlockStmt
					switch y := x.(type) {
					case *ast.SwitchStmt:
						b = y.Body
					case *ast.TypeSwitchStmt:
						b = y.Body
					case *ast.SelectStmt:
						b = y.Body
					}
					walk(b, loopDepth+1)
					return false
				}
			}
			return true
		})
	}
	walk(body, 0)
	return bad
}

// iterate runs one iteration of the map-range loop rs for key k in state s.
func (fv *FuncVC) iterate(rs *ast.RangeStmt, m Val, mt *types.Map, k string, s *State) *State {
	ks, vs := fv.th.sortOf(mt.Key()), fv.th.sortOf(mt.Elem())
	_, vh, _ := fv.declMapHeaps(ks, vs)
	frame := &jumpFrame{isLoop: true}
	fv.frames = []*jumpFrame{frame}
	fv.loopDescCount = map[string]int{} // every run of the body sees its inner loops as the first ones
	fv.loopOrd = 0
	define := rs.Tok == token.DEFINE
	fv.bindRangeVar(rs.Key, define, Val{k, ks, mt.Key()}, s)
	if rs.Value != nil {
		vv := Val{sx("select", sx("select", fv.getHeap(s, vh), m.T), k), vs, mt.Elem()}
		fv.valueFacts(s, vv)
		fv.bindRangeVar(rs.Value, define, vv, s)
	}
	s = fv.execBlock(rs.Body.List, s)
	out := fv.merge(append([]*State{s}, frame.continues...))
	fv.frames = nil
	return out
}

func commuteObligations(w *World, src ndSource, oname string) []*Obligation {
	rs := src.Node.(*ast.RangeStmt)
	if why := containsReturnOrBreakOut(rs.Body); why != "" {
		return []*Obligation{presetObligation(oname+":commute", src.Func, src.Pos, "rule commute not applicable: "+why, "not-applicable")}
	}
	fv, st := newScratchVC(w, src.FI)
	var result []*Obligation
	func() {
		defer func() {
			if r := recover(); r != nil {
				result = []*Obligation{presetObligation(oname+":commute", src.Func, src.Pos, fmt.Sprintf("rule commute: generation failed: %v", r), "not-generated")}
			}
		}()
		fv.bindFreeVars(rs, st)
		mt := types.Unalias(fv.typeOf(rs.X)).Underlying().(*types.Map)
		m := fv.eval(rs.X, st)
		fv.unknownCalls = map[string]bool{} // the ranged expression is evaluated once, before the loop
		fv.unsupported = nil
		ks, vs := fv.th.sortOf(mt.Key()), fv.th.sortOf(mt.Elem())
		d, _, _ := fv.declMapHeaps(ks, vs)
		k1 := fv.havocVal(st, "k1", mt.Key())
		k2 := fv.havocVal(st, "k2", mt.Key())
		dom := sx("select", fv.getHeap(st, d), m.T)
		fv.addFact(st, mkAnd(mkNot(mkEq(m.T, "nil")), sx("select", dom, k1.T), sx("select", dom, k2.T), mkNot(fv.eqVals(k1, k2))))
		// materialise every heap that the body may touch lazily: run both orders from the same start
		nFresh := len(fv.freshRefs)
		outer := map[types.Object]Val{}
		for o, v := range st.vars {
			outer[o] = v
		}
		sA := fv.iterate(rs, m, mt, k2.T, fv.iterate(rs, m, mt, k1.T, st.clone()))
		sB := fv.iterate(rs, m, mt, k1.T, fv.iterate(rs, m, mt, k2.T, st.clone()))
		fv.obls = nil // safety obligations of the body belong to other checks
		fv.curPos = rs.Pos()
		var why []string
		if len(fv.freshRefs) > nFresh {
			why = append(why, "the body allocates (object identities differ between the two orders)")
		}
		if sA.epoch != st.epoch || sB.epoch != st.epoch {
			why = append(why, "the body calls code that may change any heap")
		}
		for k := range fv.unknownCalls {
			why = append(why, k)
		}
		why = append(why, fv.unsupported...)
		if len(why) > 0 {
			result = []*Obligation{presetObligation(oname+":commute", src.Func, src.Pos, "rule commute not applicable: "+strings.Join(why, "; "), "not-applicable")}
			return
		}
		fin := st.clone()
		fin.guard = mkAnd(sA.guard, sB.guard)
		_ = vs
		// both orders reach the end under the same conditions
		if o := fv.oblig(st, "ordind", strings.TrimPrefix(oname, src.Func+"#")+":commute:reach", "both orders complete under the same conditions", mkEq(sA.guard, sB.guard)); o != nil {
			result = append(result, o)
		}
		n := 0
		for o := range outer {
			a, okA := sA.vars[o]
			b, okB := sB.vars[o]
			if !okA || !okB || a.T == b.T {
				continue
			}
			n++
			if ob := fv.oblig(fin, "ordind", fmt.Sprintf("%s:commute:var:%s", strings.TrimPrefix(oname, src.Func+"#"), o.Name()), "variable "+o.Name()+" has the same value after both orders", fv.eqVals(a, b)); ob != nil {
				result = append(result, ob)
			}
		}
		for _, h := range sortedKeys(fv.heapSortAsAny()) {
			a, b := fv.getHeap(sA, h), fv.getHeap(sB, h)
			if a == b {
				continue
			}
			if ob := fv.oblig(fin, "ordind", fmt.Sprintf("%s:commute:heap:%s", strings.TrimPrefix(oname, src.Func+"#"), shortHeap(h)), "heap "+h+" is the same after both orders", mkEq(a, b)); ob != nil {
				result = append(result, ob)
			}
		}
		if len(result) == 1 {
			// nothing differs syntactically: still one (trivial) obligation so that the loop is counted
		}
		for _, ob := range result {
			ob.facts = fv.facts[:ob.NFacts]
		}
	}()
	return result
}

func (fv *FuncVC) heapSortAsAny() map[string]Sort { return fv.heapSort }

// sortedAfterObligations: `for k, v := range m { ...; X = append(X, e) }; sort.Strings(X)` (or sort.Slice).
func sortedAfterObligations(w *World, src ndSource, oname string) []*Obligation {
	rs := src.Node.(*ast.RangeStmt)
	fail := func(why string) []*Obligation {
		return []*Obligation{presetObligation(oname+":sorted-after", src.Func, src.Pos, "rule sorted-after not applicable: "+why, "not-applicable")}
	}
	if why := containsReturnOrBreakOut(rs.Body); why != "" {
		return fail(why)
	}
	// the statement following the loop
	var next ast.Stmt
	ast.Inspect(src.FI.Decl.Body, func(n ast.Node) bool {
		var list []ast.Stmt
		switch b := n.(type) {
		case *ast.BlockStmt:
			list = b.List
		case *ast.CaseClause:
			list = b.Body
		}
		for i, s := range list {
			if s == ast.Stmt(rs) && i+1 < len(list) {
				next = list[i+1]
			}
		}
		return true
	})
	es, ok := next.(*ast.ExprStmt)
	if !ok {
		return fail("the loop is not followed by a sort call")
	}
	call, ok := es.X.(*ast.CallExpr)
	if !ok || len(call.Args) == 0 {
		return fail("the loop is not followed by a sort call")
	}
	info := src.FI.Pkg.TypesInfo
	var callee *types.Func
	if se, ok := call.Fun.(*ast.SelectorExpr); ok {
		callee, _ = info.ObjectOf(se.Sel).(*types.Func)
	}
	if callee == nil {
		return fail("the loop is not followed by a sort call")
	}
	full := callee.FullName()
	xid, ok := ast.Unparen(call.Args[0]).(*ast.Ident)
	if !ok {
		return fail("sorted value is not a local variable")
	}
	xobj := info.ObjectOf(xid)
	switch full {
	case "sort.Strings", "slices.Sort", "sort.Slice", "sort.SliceStable":
	default:
		return fail("the loop is followed by " + full + ", not by a sort")
	}
	fv, st := newScratchVC(w, src.FI)
	var result []*Obligation
	func() {
		defer func() {
			if r := recover(); r != nil {
				result = fail(fmt.Sprintf("generation failed: %v", r))
			}
		}()
		fv.bindFreeVars(rs, st)
		if len(call.Args) > 1 {
			fv.bindFreeVars(call.Args[1], st)
		}
		if _, ok := st.vars[xobj]; !ok {
			result = fail("the sorted slice is not the one built by the loop")
			return
		}
		mt := types.Unalias(fv.typeOf(rs.X)).Underlying().(*types.Map)
		m := fv.eval(rs.X, st)
		ks, vs := fv.th.sortOf(mt.Key()), fv.th.sortOf(mt.Elem())
		_ = vs
		d, _, _ := fv.declMapHeaps(ks, vs)
		k1 := fv.havocVal(st, "k1", mt.Key())
		k2 := fv.havocVal(st, "k2", mt.Key())
		dom := sx("select", fv.getHeap(st, d), m.T)
		fv.addFact(st, mkAnd(mkNot(mkEq(m.T, "nil")), sx("select", dom, k1.T), sx("select", dom, k2.T), mkNot(fv.eqVals(k1, k2))))
		x0 := st.vars[xobj]
		et := elemType(x0.GoT)
		esort := fv.th.sortOf(et)
		hX := fv.declSliceHeapT(et)
		type iter struct {
			st       *State
			appended string // condition: exactly one element appended
			elem     string
		}
		nrun := 0
		run := func(k string) (iter, string) {
			nrun++
			logStart := len(fv.storeLog)
			s := fv.iterate(rs, m, mt, k, st.clone())
			log := append([]storeRec(nil), fv.storeLog[logStart:]...)
			// effects: only X changed among the outer variables; heap writes only at fresh objects
			for o, v0 := range st.vars {
				if o == xobj {
					continue
				}
				if v1, ok := s.vars[o]; ok && v1.T != v0.T {
					return iter{}, "the body assigns " + o.Name()
				}
			}
			for _, r := range log {
				if r.heap == "*" || r.ref == "*" {
					return iter{}, "the body calls code that may change any heap"
				}
				if !fv.freshRefs[r.ref] {
					return iter{}, "the body writes to " + r.heap + " (not only to the slice it builds)"
				}
			}
			x1 := s.vars[xobj]
			n0 := sx("sl_len", x0.T)
			one := mkEq(sx("sl_len", x1.T), sx("+", n0, "1"))
			same := mkEq(x1.T, x0.T)
			// each iteration appends one element or nothing
			if ob := fv.oblig(s, "ordind", strings.TrimPrefix(oname, src.Func+"#")+fmt.Sprintf(":sorted-after:append-only:%d", nrun), "each iteration appends at most one element to "+xid.Name+" and does nothing else", mkOr(one, same)); ob != nil {
				result = append(result, ob)
			}
			el := sx("select", sx("select", fv.getHeap(s, hX), sx("sl_ref", x1.T)), n0)
			return iter{s, mkAnd(s.guard, one), el}, ""
		}
		i1, why := run(k1.T)
		if why != "" {
			result = fail(why)
			return
		}
		i2, why := run(k2.T)
		if why != "" {
			result = fail(why)
			return
		}
		for k := range fv.unknownCalls {
			result = fail("the body calls " + k)
			return
		}
		if len(fv.unsupported) > 0 {
			result = fail(strings.Join(fv.unsupported, "; "))
			return
		}
		// drop the safety obligations of the body, keep ours
		var mine []*Obligation
		for _, o := range fv.obls {
			if o.Kind == "ordind" {
				mine = append(mine, o)
			}
		}
		result = mine
		fv.obls = mine
		fv.curPos = call.Pos()
		if full == "sort.Slice" || full == "sort.SliceStable" {
			fl, ok := call.Args[1].(*ast.FuncLit)
			if !ok {
				result = fail("comparison is not a function literal")
				return
			}
			// a two element slice [e1, e2]
			s := st.clone()
			r := fv.freshRef(s, "pair")
			arb := fv.th.freshConst("pairarr", arraySort(SInt, esort))
			fv.setHeapQuiet(s, hX, sx("store", fv.getHeap(s, hX), r, sx("store", sx("store", arb, "0", i1.elem), "1", i2.elem)))
			s.vars[xobj] = Val{sx("mk_slice", r, "2"), SSlice, x0.GoT}
			// the closure is evaluated in the state where both elements' heaps are visible: merge heaps of the two runs is
			// not needed because iterations only write fresh objects
			l01, ok1 := fv.closureLess(fl, s, "0", "1")
			l10, ok2 := fv.closureLess(fl, s, "1", "0")
			if !ok1 || !ok2 {
				result = fail("comparison closure is not a single return expression")
				return
			}
			fin := st.clone()
			fin.guard = mkAnd(i1.appended, i2.appended)
			if ob := fv.oblig(fin, "ordind", strings.TrimPrefix(oname, src.Func+"#")+":sorted-after:total", "the sort order is total on the appended elements (elements of two different keys are ordered, or identical)",
				mkOr(l01, l10, mkEq(i1.elem, i2.elem))); ob != nil {
				result = append(result, ob)
			}
		}
		if len(result) == 0 {
			result = append(result, fv.oblig(st, "ordind", strings.TrimPrefix(oname, src.Func+"#")+":sorted-after:shape", "append-only loop followed by "+full, "true"))
		}
		for _, ob := range result {
			ob.facts = fv.facts[:ob.NFacts]
		}
	}()
	return result
}

// ---- C18: safety sweep
//
// For every function of the packages the property names, one obligation per index / slice bound,
// single-value type assertion, nil map store, pointer dereference, nil receiver of a dependency
// method, division and make length is generated (no annotation needed; thin `requires` of existing
// contracts are used). Explicit panic(...) is a diagnostic exit. Sites that cannot be proved on the
// unchanged tree are listed in contracts/safety_baseline.json: they are NOT claimed. The check fails
// when a site outside that list is unproved (a new unsafe site, or a guard that no longer protects
// a proved one).

var sweepPkgs = []string{
	"analysis", "analysis/sql", "generator", "generator/go/gounions", "generator/go/randdata",
	"generator/typescript", "generator/dart", "generator/sql", "generator/go/sqlcrud",
}

type safetySite struct {
	Key  string `json:"key"`
	Pos  string `json:"pos,omitempty"`
	Why  string `json:"why,omitempty"`
}

func loadSafetyBaseline() map[string]string {
	out := map[string]string{}
	var sites []safetySite
	data, err := os.ReadFile(filepath.Join(verifDir, "contracts", "safety_baseline.json"))
	if err == nil {
		json.Unmarshal(data, &sites)
	}
	for _, s := range sites {
		out[s.Key] = s.Why
	}
	return out
}

// siteKeys gives each safety obligation of a function a key independent of ordinals and lines.
func siteKeys(obls []*Obligation) map[*Obligation]string {
	out := map[*Obligation]string{}
	cnt := map[string]int{}
	for _, o := range obls {
		kind := o.Name[strings.Index(o.Name, "#")+1:]
		if i := strings.Index(kind, "@"); i >= 0 {
			kind = kind[:i]
		}
		base := shortName(o.Func) + "#" + kind + ":" + strings.Join(strings.Fields(o.Text), " ")
		cnt[base]++
		out[o] = fmt.Sprintf("%s#%d", base, cnt[base])
	}
	return out
}

type sweepResult struct {
	obls     []*Obligation
	keys     map[*Obligation]string
	funcs    int
	abstracted []string
	failed   []string
}

func runSweep(w *World) *sweepResult {
	sr := &sweepResult{keys: map[*Obligation]string{}}
	want := map[string]bool{}
	for _, p := range sweepPkgs {
		want[repoModule+"/"+p] = true
	}
	for _, k := range w.sortedFuncKeys() {
		fi := w.Funcs[k]
		if !want[fi.Pkg.PkgPath] {
			continue
		}
		var res *FuncResult
		func() {
			defer func() {
				if r := recover(); r != nil {
					sr.failed = append(sr.failed, shortName(k)+": "+fmt.Sprint(r))
				}
			}()
			mode := "safety"
			if fi.Contract != nil && len(fi.Contract.Props) > 0 && !fi.Contract.Trusted && !fi.Contract.NoSafety {
				mode = "full" // functions under a full contract: their loop invariants discharge the safety sites
			}
			res = genFunc(w, fi, mode)
		}()
		if res == nil {
			continue
		}
		if res.Err != "" {
			sr.failed = append(sr.failed, shortName(k)+": "+res.Err)
			continue
		}
		sr.funcs++
		if res.Abstracted {
			sr.abstracted = append(sr.abstracted, shortName(k)+": "+strings.Join(res.Unsupported, "; "))
		}
		var safe []*Obligation
		for _, o := range res.Obls {
			if o.Kind == "safe" {
				safe = append(safe, o)
			}
		}
		// function literals are not translated as part of their function: sweep each body on its own,
		// with arbitrary parameters and captured variables
		nlit := 0
		ast.Inspect(fi.Decl.Body, func(n ast.Node) bool {
			fl, ok := n.(*ast.FuncLit)
			if !ok {
				return true
			}
			nlit++
			func() {
				defer func() {
					if r := recover(); r != nil {
						sr.failed = append(sr.failed, fmt.Sprintf("%s$lit%d: %v", shortName(k), nlit, r))
					}
				}()
				// a literal with its own contract (closure contracts): its preconditions discharge its safety sites,
				// and every call of the closure is checked against them
				if li, fl2 := litInfo(w, fi, nlit); li != nil && fl2 == fl && li.Contract != nil && len(li.Contract.Props) > 0 && !li.Contract.NoSafety && !li.Contract.Trusted {
					lres := genLit(w, li, fl)
					if lres.Err == "" {
						for _, o := range lres.Obls {
							if o.Kind == "safe" {
								safe = append(safe, o)
							}
						}
						return
					}
				}
				fv, st := newScratchVC(w, fi)
				fv.mode = "safety"
				fv.litMode = true
				for _, f := range fl.Type.Params.List {
					for _, name := range f.Names {
						if o, ok := fv.info.Defs[name].(*types.Var); ok {
							st.vars[o] = fv.havocVal(st, o.Name(), o.Type())
						}
					}
				}
				fv.bindFreeVars(fl.Body, st)
				fv.curPos = fl.Pos()
				fv.execBlock(fl.Body.List, st)
				for _, o := range fv.obls {
					if o.Kind != "safe" {
						continue
					}
					o.Name = strings.Replace(o.Name, "#", fmt.Sprintf("$lit%d#", nlit), 1)
					o.facts = fv.facts[:o.NFacts]
					safe = append(safe, o)
				}
			}()
			return true
		})
		for o, key := range siteKeys(safe) {
			sr.keys[o] = key
		}
		sr.obls = append(sr.obls, safe...)
	}
	return sr
}

func safetySweep(cc *checkCtx, w *World) *extraResult {
	ex := &extraResult{Coverage: map[string]interface{}{}}
	sr := runSweep(w)
	baseline := loadSafetyBaseline()
	opts := solveOpts{TimeoutS: 4, OutDir: cc.outDir, Jobs: 8}
	if cc.tier == "thorough" {
		opts.TimeoutS = 20
	}
	// quick tier: the sites acknowledged as unproved are not attempted again (each costs a full timeout)
	var toSolve []*Obligation
	for _, o := range sr.obls {
		if _, ok := baseline[sr.keys[o]]; ok && cc.tier != "thorough" {
			o.Result = "not-attempted"
			continue
		}
		toSolve = append(toSolve, o)
	}
	// sites acknowledged as unproved get one attempt (thorough tier); only the others are retried under load
	var acknowledged, others []*Obligation
	for _, o := range toSolve {
		if _, ok := baseline[sr.keys[o]]; ok {
			acknowledged = append(acknowledged, o)
		} else {
			others = append(others, o)
		}
	}
	solveAll(acknowledged, opts)
	solveRobust(others, opts)
	var unprovedBaseline []string
	proved := 0
	for _, o := range sr.obls {
		key := sr.keys[o]
		if o.Result == "unsat" {
			proved++
			ex.Obls = append(ex.Obls, o)
			continue
		}
		if _, ok := baseline[key]; ok {
			unprovedBaseline = append(unprovedBaseline, key)
			continue
		}
		o.Text = o.Text + "  {site " + key + "}"
		ex.Obls = append(ex.Obls, o) // not proved and not acknowledged: reported
	}
	// already solved: mark preset so that the driver does not solve again
	for _, o := range ex.Obls {
		o.Preset = true
	}
	sortStringsInPlace(unprovedBaseline)
	ex.Coverage["sweep_functions"] = sr.funcs
	ex.Coverage["sweep_sites"] = len(sr.obls)
	ex.Coverage["sweep_proved"] = proved
	ex.Coverage["unproved_sites_not_claimed"] = unprovedBaseline
	ex.Coverage["sweep_abstracted_functions"] = sr.abstracted
	ex.Coverage["sweep_generation_failures"] = sr.failed
	ex.Funcs = append(ex.Funcs, fmt.Sprintf("(safety sweep: %d functions of %s)", sr.funcs, strings.Join(sweepPkgs, ", ")))
	ex.Assumptions = append(ex.Assumptions,
		"safety sweep: pointer receivers and pointer-typed parameters are assumed non-nil on entry; values read from the heap, from maps and from calls are not",
		fmt.Sprintf("%d safety sites are not proved on the unchanged tree and are listed in contracts/safety_baseline.json: not claimed, a change affecting only them is not detected", len(unprovedBaseline)),
		"the 'unbounded recursion' clause of the property (termination of createType/handleType on cyclic declarations) is not decided")
	return ex
}

// govc sweep [-write]: prints the sweep; -write regenerates the baseline of unproved sites.
func cmdSweep(args []string) {
	write := len(args) > 0 && args[0] == "-write"
	w, err := loadWorld()
	if err != nil {
		fmt.Fprintln(os.Stderr, err)
		os.Exit(2)
	}
	sr := runSweep(w)
	solveAll(sr.obls, solveOpts{TimeoutS: 4, OutDir: filepath.Join(verifDir, "out", "sweep"), Jobs: 8})
	var sites []safetySite
	proved := 0
	for _, o := range sr.obls {
		if o.Result == "unsat" {
			proved++
			continue
		}
		sites = append(sites, safetySite{Key: sr.keys[o], Pos: o.Pos, Why: o.Result})
	}
	fmt.Printf("functions=%d sites=%d proved=%d unproved=%d generation-failures=%d abstracted=%d\n", sr.funcs, len(sr.obls), proved, len(sites), len(sr.failed), len(sr.abstracted))
	for _, f := range sr.failed {
		fmt.Println("  generation failure:", f)
	}
	if write {
		data, _ := json.MarshalIndent(sites, "", " ")
		os.WriteFile(filepath.Join(verifDir, "contracts", "safety_baseline.json"), data, 0o644)
		fmt.Println("baseline written")
	} else {
		for _, s := range sites {
			fmt.Printf("  unproved %-8s %s   [%s]\n", s.Why, s.Key, s.Pos)
		}
	}
}

// ---- goroutine capture rule (C20): data-race freedom of the variables a `go func(){...}()` literal captures.
// For each go statement of the repository: a captured local that the goroutine writes must be a per-iteration
// instance (declared inside the innermost loop body around the go statement, or the function has no loop) and
// must not be mentioned by the spawning function after the go statement; a captured local that the goroutine only
// reads must not be assigned by the spawning function after the go statement, nor anywhere in the loop when it is
// declared outside of it. Exempt: sync.* values (WaitGroup, Mutex), channels, and package-level variables of a
// struct type with `guarded` fields (their accesses are the lock-discipline obligations).
func goCaptureObligations(cc *checkCtx, w *World) *extraResult {
	ex := &extraResult{Coverage: map[string]interface{}{}}
	guardedStructs := map[string]bool{}
	for _, g := range w.Guarded {
		guardedStructs[g.Struct] = true
	}
	exempt := func(o *types.Var) bool {
		t := types.Unalias(o.Type())
		if _, isChan := t.Underlying().(*types.Chan); isChan {
			return true
		}
		if p, ok := t.(*types.Pointer); ok {
			t = types.Unalias(p.Elem())
		}
		if n, ok := t.(*types.Named); ok && n.Obj().Pkg() != nil {
			if n.Obj().Pkg().Path() == "sync" {
				return true
			}
			if guardedStructs[n.Obj().Pkg().Path()+"."+n.Obj().Name()] || guardedStructs[shortName(n.Obj().Pkg().Path()+"."+n.Obj().Name())] {
				return true
			}
		}
		return false
	}
	var sites []string
	for _, k := range w.sortedFuncKeys() {
		fi := w.Funcs[k]
		if fi.Decl == nil || fi.Decl.Body == nil {
			continue
		}
		info := fi.Pkg.TypesInfo
		// stack of enclosing loops while walking
		var loops []ast.Node
		nGo := 0
		var visit func(n ast.Node) bool
		visit = func(n ast.Node) bool {
			switch x := n.(type) {
			case *ast.ForStmt, *ast.RangeStmt:
				loops = append(loops, n)
				var body *ast.BlockStmt
				if f, ok := x.(*ast.ForStmt); ok {
					body = f.Body
				} else {
					body = x.(*ast.RangeStmt).Body
				}
				ast.Inspect(body, visit)
				loops = loops[:len(loops)-1]
				return false
			case *ast.GoStmt:
				fl, ok := x.Call.Fun.(*ast.FuncLit)
				if !ok {
					return true
				}
				nGo++
				declared := map[types.Object]bool{}
				ast.Inspect(fl, func(m ast.Node) bool {
					if id, ok := m.(*ast.Ident); ok {
						if o := info.Defs[id]; o != nil {
							declared[o] = true
						}
					}
					return true
				})
				written := map[*types.Var]bool{}
				captured := map[*types.Var]bool{}
				mark := func(e ast.Expr) {
					if id, ok := ast.Unparen(e).(*ast.Ident); ok {
						if o, ok := info.ObjectOf(id).(*types.Var); ok && !declared[o] {
							written[o] = true
						}
					}
				}
				ast.Inspect(fl.Body, func(m ast.Node) bool {
					switch y := m.(type) {
					case *ast.Ident:
						if o, ok := info.Uses[y].(*types.Var); ok && !declared[o] && !o.IsField() {
							captured[o] = true
						}
					case *ast.AssignStmt:
						for _, l := range y.Lhs {
							mark(l)
						}
					case *ast.IncDecStmt:
						mark(y.X)
					case *ast.UnaryExpr:
						if y.Op == token.AND {
							mark(y.X)
						}
					}
					return true
				})
				var innermost ast.Node
				if len(loops) > 0 {
					innermost = loops[len(loops)-1]
				}
				var names []*types.Var
				for o := range captured {
					names = append(names, o)
				}
				sort.Slice(names, func(i, j int) bool { return names[i].Name() < names[j].Name() })
				for _, o := range names {
					if exempt(o) {
						continue
					}
					pkgLevel := o.Parent() != nil && o.Pkg() != nil && o.Parent() == o.Pkg().Scope()
					inLoopBody := innermost != nil && o.Pos() > innermost.Pos() && o.Pos() < innermost.End() && !pkgLevel
					// what the spawning function does with the variable after the go statement / in the loop
					usedAfter, assignedAfter, assignedInLoop := false, false, false
					ast.Inspect(fi.Decl.Body, func(m ast.Node) bool {
						if m == ast.Node(fl) {
							return false
						}
						switch y := m.(type) {
						case *ast.Ident:
							if info.Uses[y] == types.Object(o) && y.Pos() > x.End() {
								usedAfter = true
							}
						case *ast.AssignStmt:
							for _, l := range y.Lhs {
								if id, ok := ast.Unparen(l).(*ast.Ident); ok && info.ObjectOf(id) == types.Object(o) && y.Tok != token.DEFINE {
									if y.Pos() > x.End() {
										assignedAfter = true
									}
									if innermost != nil && y.Pos() > innermost.Pos() && y.Pos() < innermost.End() {
										assignedInLoop = true
									}
								}
							}
						}
						return true
					})
					name := fmt.Sprintf("%s#gocapture:%d:%s", fi.FullKey(), nGo, o.Name())
					site := fmt.Sprintf("%s go#%d captures %s", shortName(fi.FullKey()), nGo, o.Name())
					ok := true
					why := ""
					switch {
					case written[o] && pkgLevel:
						ok, why = false, "a package-level variable is written by the goroutine"
					case written[o] && innermost != nil && !inLoopBody:
						ok, why = false, "the goroutine writes a variable declared outside the loop that spawns it: every goroutine (and the spawning function) shares it"
					case written[o] && usedAfter:
						ok, why = false, "the goroutine writes a variable the spawning function still uses after the go statement"
					case !written[o] && (assignedAfter || (innermost != nil && !inLoopBody && assignedInLoop)):
						ok, why = false, "the spawning function assigns a variable a running goroutine reads"
					}
					if ok {
						ex.Obls = append(ex.Obls, &Obligation{Name: name, Func: fi.FullKey(), Kind: "post", Pos: w.pos(x.Pos()), Text: "captured variable " + o.Name() + " is not shared with a writer", Result: "unsat", Solver: "syntactic", Preset: true})
						sites = append(sites, site+": ok")
					} else {
						ex.Obls = append(ex.Obls, presetObligation(name, fi.FullKey(), w.pos(x.Pos()), "captured variable "+o.Name()+": "+why, "data-race"))
						sites = append(sites, site+": "+why)
					}
				}
				return true
			}
			return true
		}
		ast.Inspect(fi.Decl.Body, visit)
	}
	ex.Coverage["goroutine_captures"] = sites
	ex.Assumptions = append(ex.Assumptions, "goroutine capture rule: syntactic; objects reached through captured pointers other than sync.* values and lock-guarded structs are not tracked")
	return ex
}

// ---- regular-expression pins: the contracts treat regexp matching as opaque and ASSUME what each pattern of the
// repository matches (contracts/regex_pins.json). The assumption is about one pattern text: when the pattern of a
// pinned variable changes (or the variable disappears) the assumption is stale, which is reported.
type regexPin struct {
	Var        string   `json:"var"` // <package dir>.<variable>
	Pattern    string   `json:"pattern"`
	Props      []string `json:"props"`
	Assumption string   `json:"assumption"`
}

func regexPinObligations(p *PropDef, w *World) ([]*Obligation, []string) {
	data, err := os.ReadFile(filepath.Join(verifDir, "contracts", "regex_pins.json"))
	if err != nil {
		return nil, nil
	}
	var pins []regexPin
	if err := json.Unmarshal(data, &pins); err != nil {
		return []*Obligation{presetObligation("regex_pins.json#parse", "", "", err.Error(), "not-generated")}, nil
	}
	var out []*Obligation
	var notes []string
	for _, pin := range pins {
		serves := false
		for _, id := range pin.Props {
			if id == p.ID {
				serves = true
			}
		}
		if !serves {
			continue
		}
		i := strings.LastIndex(pin.Var, ".")
		pkg := w.Pkgs[repoModule+"/"+pin.Var[:i]]
		name := pin.Var[i+1:]
		found, pos := "", ""
		if pkg != nil {
			for _, f := range pkg.Syntax {
				ast.Inspect(f, func(n ast.Node) bool {
					vs, ok := n.(*ast.ValueSpec)
					if !ok {
						return true
					}
					for k, nm := range vs.Names {
						if nm.Name != name || k >= len(vs.Values) {
							continue
						}
						if call, ok := vs.Values[k].(*ast.CallExpr); ok && len(call.Args) == 1 {
							if tv, ok := pkg.TypesInfo.Types[call.Args[0]]; ok && tv.Value != nil && tv.Value.Kind() == constant.String {
								found = constant.StringVal(tv.Value)
								pos = w.pos(nm.Pos())
							}
						}
					}
					return true
				})
			}
		}
		oname := repoModule + "/" + pin.Var + "#regex:pin"
		if found == pin.Pattern {
			out = append(out, &Obligation{Name: oname, Func: repoModule + "/" + pin.Var, Kind: "post", Pos: pos, Text: "pattern unchanged", Result: "unsat", Solver: "syntactic", Preset: true})
			notes = append(notes, fmt.Sprintf("regular expression %s = %q: %s (assumed; pinned to the pattern text)", pin.Var, pin.Pattern, pin.Assumption))
		} else {
			out = append(out, presetObligation(oname+":stale", repoModule+"/"+pin.Var, pos,
				fmt.Sprintf("the contracts assume what %s matches (%s); that was written for the pattern %q, the pattern is now %q", pin.Var, pin.Assumption, pin.Pattern, found), "stale-assumption"))
		}
	}
	return out, notes
}
