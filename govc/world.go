package main

import (
	"fmt"
	"go/ast"
	"go/token"
	"go/types"
	"os"
	"path/filepath"
	"sort"
	"strings"

	"golang.org/x/tools/go/packages"
)

const repoModule = "github.com/benoitkugler/gomacro"

var repoDir = "/repo"
var verifDir = "/verif"

// packages loaded by explicit pattern (fixture packages under */test are rewritten by the
// repository's own tests and one of them does not load).
var loadPatterns = []string{
	"./analysis", "./analysis/sql", "./analysis/httpapi",
	"./generator", "./generator/sql", "./generator/dart", "./generator/typescript",
	"./generator/go/gounions", "./generator/go/randdata", "./generator/go/sqlcrud",
	"./cmd",
}

type World struct {
	Fset      *token.FileSet
	Pkgs      map[string]*packages.Package // by import path (repo packages only)
	All       map[string]*packages.Package // every package reachable
	Contracts map[string]*ContractFile     // by import path
	Funcs     map[string]*FuncInfo         // key: pkgpath + "." + contract key
	ByObj     map[*types.Func]*FuncInfo
	Externs   *ExternSpecs
	Guarded   []GuardDecl
	// no statement outside package analysis assigns to a field or element of a type declared in package analysis
	PureMethods map[string]bool // "<pkgpath>.<Interface>.<Method>": interface methods whose implementations are all pure
	AnalysisImmutable bool
	ImmutabilityNotes []string
	// fields of package-level `var g = &T{f: <literal>}` objects that no statement of the repository ever
	// assigns (and g itself is never reassigned): their value is the initialiser's in every state
	ConstPointees []ConstPointee
}

type ConstPointee struct {
	Global *types.Var
	Struct types.Type // T
	Field  string
	Value  string // SMT literal: true / false / integer
	Pos    string
}

type FuncInfo struct {
	Pkg      *packages.Package
	Decl     *ast.FuncDecl
	Obj      *types.Func
	Key      string // contract-style key
	Contract *FuncContract
	CF       *ContractFile
}

type GuardDecl struct {
	Struct string // qualified struct name
	Field  string
	By     string
}

func (fi *FuncInfo) FullKey() string { return fi.Pkg.PkgPath + "." + fi.Key }

func funcKey(fd *ast.FuncDecl) string {
	if fd.Recv == nil || len(fd.Recv.List) == 0 {
		return fd.Name.Name
	}
	t := fd.Recv.List[0].Type
	star := false
	if s, ok := t.(*ast.StarExpr); ok {
		star = true
		t = s.X
	}
	name := ""
	switch x := t.(type) {
	case *ast.Ident:
		name = x.Name
	case *ast.IndexExpr:
		if id, ok := x.X.(*ast.Ident); ok {
			name = id.Name
		}
	}
	if star {
		return "(*" + name + ")." + fd.Name.Name
	}
	return name + "." + fd.Name.Name
}

func loadWorld() (*World, error) {
	cfg := &packages.Config{
		Dir:        repoDir,
		Mode:       packages.LoadAllSyntax,
		BuildFlags: []string{"-tags=verif"},
		Env:        append(os.Environ(), "GOFLAGS=-mod=mod", "GOPROXY=off", "GOSUMDB=off", "GOTOOLCHAIN=local"),
	}
	pkgs, err := packages.Load(cfg, loadPatterns...)
	if err != nil {
		return nil, err
	}
	w := &World{Pkgs: map[string]*packages.Package{}, All: map[string]*packages.Package{},
		Contracts: map[string]*ContractFile{}, Funcs: map[string]*FuncInfo{}, ByObj: map[*types.Func]*FuncInfo{}}
	var errs []string
	packages.Visit(pkgs, nil, func(p *packages.Package) {
		w.All[p.PkgPath] = p
		if strings.HasPrefix(p.PkgPath, repoModule) {
			for _, e := range p.Errors {
				errs = append(errs, e.Error())
			}
		}
	})
	if len(errs) > 0 {
		return nil, fmt.Errorf("load errors: %s", strings.Join(errs, "; "))
	}
	for _, p := range pkgs {
		w.Pkgs[p.PkgPath] = p
		w.Fset = p.Fset
		for _, f := range p.Syntax {
			for _, d := range f.Decls {
				fd, ok := d.(*ast.FuncDecl)
				if !ok || fd.Body == nil {
					continue
				}
				obj, _ := p.TypesInfo.Defs[fd.Name].(*types.Func)
				if obj == nil {
					continue
				}
				fi := &FuncInfo{Pkg: p, Decl: fd, Obj: obj, Key: funcKey(fd)}
				w.Funcs[fi.FullKey()] = fi
				w.ByObj[obj] = fi
			}
		}
	}
	// contract files: <pkgdir>/contracts_verif.go (comment-only, build tag verif)
	for path, p := range w.Pkgs {
		if len(p.GoFiles) == 0 {
			continue
		}
		dir := filepath.Dir(p.GoFiles[0])
		fn := filepath.Join(dir, "contracts_verif.go")
		data, err := os.ReadFile(fn)
		if err != nil {
			continue
		}
		cf, err := parseContractText(path, fn, string(data))
		if err != nil {
			return nil, err
		}
		w.Contracts[path] = cf
		for key, fc := range cf.Funcs {
			fi := w.Funcs[path+"."+key]
			if fi == nil {
				// the function named by the contract is gone: shape change, reported by checks
				continue
			}
			fi.Contract = fc
			fi.CF = cf
		}
		for _, l := range strings.Split(string(data), "\n") {
			l = strings.TrimSpace(l)
			if strings.HasPrefix(l, "//@ puremethod ") {
				if w.PureMethods == nil {
					w.PureMethods = map[string]bool{}
				}
				w.PureMethods[path+"."+strings.TrimSpace(strings.TrimPrefix(l, "//@ puremethod "))] = true
			}
			if strings.HasPrefix(l, "//@ guarded ") {
				// //@ guarded Formatters.hasGoFmt by lock
				fs := strings.Fields(strings.TrimPrefix(l, "//@ guarded "))
				if len(fs) == 3 && fs[1] == "by" {
					sf := strings.SplitN(fs[0], ".", 2)
					w.Guarded = append(w.Guarded, GuardDecl{Struct: path + "." + sf[0], Field: sf[1], By: fs[2]})
				}
			}
		}
	}
	w.checkAnalysisImmutability()
	w.findConstPointees()
	ex, err := loadExternSpecs(filepath.Join(verifDir, "contracts", "extern"))
	if err != nil {
		return nil, err
	}
	w.Externs = ex
	return w, nil
}

func (w *World) sortedFuncKeys() []string {
	var ks []string
	for k := range w.Funcs {
		ks = append(ks, k)
	}
	sort.Strings(ks)
	return ks
}

func (w *World) pos(p token.Pos) string {
	ps := w.Fset.Position(p)
	return fmt.Sprintf("%s:%d", strings.TrimPrefix(ps.Filename, repoDir+"/"), ps.Line)
}

// missingContracts lists contract keys naming functions that no longer exist.
func (w *World) missingContracts() []string {
	var out []string
	for path, cf := range w.Contracts {
		for key := range cf.Funcs {
			if w.Funcs[path+"."+key] == nil {
				out = append(out, path+"."+key)
			}
		}
	}
	sort.Strings(out)
	return out
}

// ---- extern specs

type ExternSpec struct {
	Key      string // types.Func FullName, e.g. "strings.HasPrefix", "(*go/types.Named).Obj"
	Params   []string
	Pure     bool
	NoReturn bool
	Once     bool // result is one fixed value per verified function (function is called at most once: checked)
	Hof      bool // higher-order: the only heap effects are those of its function arguments
	Requires []*Clause
	Ensures  []*Clause
	Modifies []string
	File     string
	Used     bool
}

type ExternSpecs struct {
	Specs    map[string]*ExternSpec
	Axioms   []*Clause // global axioms over extern functions
	Preds    map[string]*PredDef
	PurePkgs map[string]bool
	SpecFuncs map[string]*PredDef // uninterpreted, heap independent spec functions (specfunc name(params) ret)
}

func loadExternSpecs(dir string) (*ExternSpecs, error) {
	ex := &ExternSpecs{Specs: map[string]*ExternSpec{}, Preds: map[string]*PredDef{}, PurePkgs: map[string]bool{}, SpecFuncs: map[string]*PredDef{}}
	files, _ := filepath.Glob(filepath.Join(dir, "*.spec"))
	sort.Strings(files)
	for _, fn := range files {
		data, err := os.ReadFile(fn)
		if err != nil {
			return nil, err
		}
		var cur *ExternSpec
		var pending *Clause
		var pendingPred *PredDef
		flush := func() error {
			if pending != nil {
				e, err := parseSpecExpr(pending.Text)
				if err != nil {
					return fmt.Errorf("%s: %v", pending.Line, err)
				}
				pending.Expr = e
				pending = nil
			}
			if pendingPred != nil {
				e, err := parseSpecExpr(pendingPred.Text)
				if err != nil {
					return fmt.Errorf("pred %s: %v", pendingPred.Name, err)
				}
				pendingPred.Body = e
				pendingPred = nil
			}
			return nil
		}
		for ln, raw := range strings.Split(string(data), "\n") {
			l := strings.TrimSpace(raw)
			if l == "" || strings.HasPrefix(l, "--") || strings.HasPrefix(l, "#") {
				continue
			}
			where := fmt.Sprintf("%s:%d", filepath.Base(fn), ln+1)
			word, rest := splitWord(l)
			switch word {
			case "purepkg":
				if err := flush(); err != nil {
					return nil, err
				}
				for _, p := range strings.Fields(rest) {
					ex.PurePkgs[p] = true
				}
			case "extern":
				if err := flush(); err != nil {
					return nil, err
				}
				// extern <FullName>(<param names>)
				op := strings.LastIndex(rest, "(")
				cl := strings.LastIndex(rest, ")")
				if op < 0 || cl < op {
					return nil, fmt.Errorf("%s: bad extern header", where)
				}
				cur = &ExternSpec{Key: strings.TrimSpace(rest[:op]), File: where}
				ps := strings.TrimSpace(rest[op+1 : cl])
				if ps != "" {
					for _, p := range strings.Split(ps, ",") {
						cur.Params = append(cur.Params, strings.TrimSpace(p))
					}
				}
				ex.Specs[cur.Key] = cur
			case "pure":
				cur.Pure = true
			case "noreturn":
				cur.NoReturn = true
			case "once":
				cur.Once = true
			case "hof":
				cur.Hof = true
			case "modifies":
				for _, m := range strings.Split(rest, ",") {
					cur.Modifies = append(cur.Modifies, strings.TrimSpace(m))
				}
			case "requires", "ensures":
				if err := flush(); err != nil {
					return nil, err
				}
				c := &Clause{Kind: word, Text: rest, Line: where}
				if word == "requires" {
					cur.Requires = append(cur.Requires, c)
				} else {
					cur.Ensures = append(cur.Ensures, c)
				}
				pending = c
			case "axiom":
				if err := flush(); err != nil {
					return nil, err
				}
				c := &Clause{Kind: "axiom", Text: rest, Line: where}
				ex.Axioms = append(ex.Axioms, c)
				pending = c
			case "specfunc":
				if err := flush(); err != nil {
					return nil, err
				}
				pd, err := parsePredHeader(rest + " = true")
				if err != nil {
					return nil, fmt.Errorf("%s: %v", where, err)
				}
				ex.SpecFuncs[pd.Name] = pd
			case "pred", "recfunc":
				if err := flush(); err != nil {
					return nil, err
				}
				pd, err := parsePredHeader(rest)
				if err != nil {
					return nil, fmt.Errorf("%s: %v", where, err)
				}
				pd.Rec = word == "recfunc"
				ex.Preds[pd.Name] = pd
				pendingPred = pd
			default:
				if pending != nil {
					pending.Text += " " + l
				} else if pendingPred != nil {
					pendingPred.Text += " " + l
				} else {
					return nil, fmt.Errorf("%s: unknown directive %q", where, word)
				}
			}
		}
		if err := flush(); err != nil {
			return nil, err
		}
	}
	return ex, nil
}

// findConstPointees: see World.ConstPointees. Conservative: any assignment to a field of that name on that
// struct type anywhere (x.f = , x.f++, &x.f, *p = for p *T), or any assignment to the global, disqualifies.
func (w *World) findConstPointees() {
	type key struct {
		t string
		f string
	}
	assignedField := map[key]bool{}
	wholeStore := map[string]bool{}
	assignedGlobal := map[types.Object]bool{}
	for _, p := range w.Pkgs {
		info := p.TypesInfo
		mark := func(l ast.Expr) {
			switch y := ast.Unparen(l).(type) {
			case *ast.SelectorExpr:
				if sel := info.Selections[y]; sel != nil && sel.Kind() == types.FieldVal {
					t := sel.Recv()
					if pt, ok := types.Unalias(t).Underlying().(*types.Pointer); ok {
						t = pt.Elem()
					}
					assignedField[key{types.TypeString(t, nil), y.Sel.Name}] = true
				}
			case *ast.StarExpr:
				if t := info.TypeOf(y); t != nil {
					wholeStore[types.TypeString(t, nil)] = true
				}
			case *ast.Ident:
				if o := info.ObjectOf(y); o != nil {
					assignedGlobal[o] = true
				}
			}
		}
		for _, f := range p.Syntax {
			ast.Inspect(f, func(n ast.Node) bool {
				switch x := n.(type) {
				case *ast.AssignStmt:
					if x.Tok != token.DEFINE {
						for _, l := range x.Lhs {
							mark(l)
						}
					}
				case *ast.IncDecStmt:
					mark(x.X)
				case *ast.UnaryExpr:
					if x.Op == token.AND {
						if _, isLit := x.X.(*ast.CompositeLit); !isLit {
							mark(x.X)
						}
					}
				}
				return true
			})
		}
	}
	for _, p := range w.Pkgs {
		info := p.TypesInfo
		for _, f := range p.Syntax {
			for _, d := range f.Decls {
				gd, ok := d.(*ast.GenDecl)
				if !ok || gd.Tok != token.VAR {
					continue
				}
				for _, sp := range gd.Specs {
					vs := sp.(*ast.ValueSpec)
					if len(vs.Names) != len(vs.Values) {
						continue
					}
					for i, nm := range vs.Names {
						g, _ := info.Defs[nm].(*types.Var)
						u, ok := vs.Values[i].(*ast.UnaryExpr)
						if g == nil || !ok || u.Op != token.AND || assignedGlobal[g] {
							continue
						}
						cl, ok := u.X.(*ast.CompositeLit)
						if !ok {
							continue
						}
						T := info.TypeOf(cl)
						stt, ok := T.Underlying().(*types.Struct)
						if !ok || wholeStore[types.TypeString(T, nil)] {
							continue
						}
						given := map[string]ast.Expr{}
						for _, e := range cl.Elts {
							if kv, ok := e.(*ast.KeyValueExpr); ok {
								if id, ok := kv.Key.(*ast.Ident); ok {
									given[id.Name] = kv.Value
								}
							} else {
								given = nil // positional literal: not handled
								break
							}
						}
						if given == nil && len(cl.Elts) > 0 {
							continue
						}
						for j := 0; j < stt.NumFields(); j++ {
							fld := stt.Field(j)
							if assignedField[key{types.TypeString(T, nil), fld.Name()}] {
								continue
							}
							b, ok := fld.Type().Underlying().(*types.Basic)
							if !ok {
								continue
							}
							val := ""
							if e, has := given[fld.Name()]; has {
								tv := info.Types[e]
								if tv.Value == nil {
									continue
								}
								switch {
								case b.Info()&types.IsBoolean != 0:
									val = tv.Value.String()
								case b.Info()&types.IsInteger != 0:
									val = tv.Value.ExactString()
								}
							} else {
								switch {
								case b.Info()&types.IsBoolean != 0:
									val = "false"
								case b.Info()&types.IsInteger != 0:
									val = "0"
								}
							}
							if val == "" {
								continue
							}
							if strings.HasPrefix(val, "-") {
								val = "(- " + val[1:] + ")"
							}
							w.ConstPointees = append(w.ConstPointees, ConstPointee{Global: g, Struct: T, Field: fld.Name(), Value: val, Pos: w.pos(nm.Pos())})
						}
					}
				}
			}
		}
	}
}

// checkAnalysisImmutability scans the non-analysis packages for stores into analysis nodes.
func (w *World) checkAnalysisImmutability() {
	w.AnalysisImmutable = true
	anaPath := repoModule + "/analysis"
	declaredInAnalysis := func(t types.Type) bool {
		for {
			switch u := types.Unalias(t).(type) {
			case *types.Pointer:
				t = u.Elem()
				continue
			case *types.Named:
				return u.Obj().Pkg() != nil && u.Obj().Pkg().Path() == anaPath
			}
			return false
		}
	}
	for path, p := range w.Pkgs {
		if path == anaPath {
			continue
		}
		// in-place mutation of a slice / map of an analysis node through a library call (sort.Slice(e.Members, ..),
		// copy(e.Members, ..), slices.Sort..), directly or through a local alias `m := e.Members`
		for _, f := range p.Syntax {
			aliases := map[types.Object]bool{}
			fieldOfAnalysis := func(e ast.Expr) bool {
				switch y := ast.Unparen(e).(type) {
				case *ast.SelectorExpr:
					if sel := p.TypesInfo.Selections[y]; sel != nil && sel.Kind() == types.FieldVal && declaredInAnalysis(sel.Recv()) {
						switch sel.Type().Underlying().(type) {
						case *types.Slice, *types.Map:
							return true
						}
					}
				case *ast.Ident:
					return aliases[p.TypesInfo.ObjectOf(y)]
				case *ast.SliceExpr:
					return false // a re-slice shares the array, but is not tracked: conservative either way is noisy
				}
				return false
			}
			ast.Inspect(f, func(n ast.Node) bool {
				if as, ok := n.(*ast.AssignStmt); ok && len(as.Lhs) == len(as.Rhs) {
					for i, r := range as.Rhs {
						if id, ok := as.Lhs[i].(*ast.Ident); ok && fieldOfAnalysis(r) {
							if _, isSel := ast.Unparen(r).(*ast.SelectorExpr); isSel {
								aliases[p.TypesInfo.ObjectOf(id)] = true
							}
						}
					}
				}
				return true
			})
			ast.Inspect(f, func(n ast.Node) bool {
				switch x := n.(type) {
				case *ast.CallExpr:
					name := ""
					switch fn := ast.Unparen(x.Fun).(type) {
					case *ast.SelectorExpr:
						if id, ok := fn.X.(*ast.Ident); ok {
							name = id.Name + "." + fn.Sel.Name
						}
					case *ast.Ident:
						name = fn.Name
					}
					mutating := map[string]bool{"sort.Slice": true, "sort.SliceStable": true, "sort.Strings": true, "sort.Ints": true, "sort.Sort": true, "sort.Stable": true,
						"slices.Sort": true, "slices.SortFunc": true, "slices.SortStableFunc": true, "slices.Reverse": true, "copy": true, "clear": true, "delete": true}
					if mutating[name] && len(x.Args) > 0 && fieldOfAnalysis(x.Args[0]) {
						w.AnalysisImmutable = false
						w.ImmutabilityNotes = append(w.ImmutabilityNotes, w.pos(x.Pos())+" ("+name+" on a slice or map of an analysis node)")
					}
				case *ast.AssignStmt:
					for _, l := range x.Lhs {
						if ix, ok := ast.Unparen(l).(*ast.IndexExpr); ok {
							if id, ok := ast.Unparen(ix.X).(*ast.Ident); ok && aliases[p.TypesInfo.ObjectOf(id)] {
								w.AnalysisImmutable = false
								w.ImmutabilityNotes = append(w.ImmutabilityNotes, w.pos(l.Pos())+" (store through a local alias of a slice or map of an analysis node)")
							}
						}
					}
				}
				return true
			})
		}
		for _, f := range p.Syntax {
			ast.Inspect(f, func(n ast.Node) bool {
				var lhs []ast.Expr
				switch x := n.(type) {
				case *ast.AssignStmt:
					lhs = x.Lhs
				case *ast.IncDecStmt:
					lhs = []ast.Expr{x.X}
				}
				for _, l := range lhs {
					// x.f = ..., x.f[i] = ..., where x.f is a field of an analysis type
					e := l
					for {
						switch y := e.(type) {
						case *ast.IndexExpr:
							e = y.X
							continue
						case *ast.ParenExpr:
							e = y.X
							continue
						}
						break
					}
					if se, ok := e.(*ast.SelectorExpr); ok {
						if sel := p.TypesInfo.Selections[se]; sel != nil && sel.Kind() == types.FieldVal {
							if declaredInAnalysis(sel.Recv()) {
								// a store into a local VALUE copy is harmless; only pointer receivers reach shared nodes
								if _, isPtr := types.Unalias(sel.Recv()).Underlying().(*types.Pointer); isPtr || e != l {
									w.AnalysisImmutable = false
									w.ImmutabilityNotes = append(w.ImmutabilityNotes, w.pos(l.Pos()))
								}
							}
						}
					}
				}
				return true
			})
		}
	}
}
