package main

import (
	"fmt"
	"sort"
	"strings"
	"go/ast"
	"go/printer"
	"go/token"
	"go/types"
	"io"
)

func printerFprint(w io.Writer, fset *token.FileSet, n ast.Node) error {
	return printer.Fprint(w, fset, n)
}

func (fv *FuncVC) execBlock(stmts []ast.Stmt, st *State) *State {
	for _, s := range stmts {
		if st.dead() {
			return st
		}
		st = fv.exec(s, st)
	}
	return st
}

func (fv *FuncVC) deadState() *State {
	return &State{vars: map[types.Object]Val{}, heaps: map[string]string{}, guard: "false", ghosts: map[string]Val{}}
}

func (fv *FuncVC) exec(s ast.Stmt, st *State) *State {
	if st.dead() {
		return st
	}
	fv.curPos = s.Pos()
	switch x := s.(type) {
	case *ast.BlockStmt:
		return fv.execBlock(x.List, st)
	case *ast.ExprStmt:
		if call, ok := x.X.(*ast.CallExpr); ok {
			fv.evalCall(call, st)
			return st
		}
		fv.eval(x.X, st)
		return st
	case *ast.AssignStmt:
		return fv.execAssign(x, st)
	case *ast.DeclStmt:
		gd, ok := x.Decl.(*ast.GenDecl)
		if !ok {
			return st
		}
		for _, sp := range gd.Specs {
			vs, ok := sp.(*ast.ValueSpec)
			if !ok {
				continue
			}
			if len(vs.Values) == 0 {
				for _, n := range vs.Names {
					o := fv.info.Defs[n]
					if o == nil {
						continue
					}
					st.vars[o] = Val{fv.th.zero(o.Type()), fv.th.sortOf(o.Type()), o.Type()}
				}
				continue
			}
			if len(vs.Values) == len(vs.Names) {
				for i, n := range vs.Names {
					v := fv.eval(vs.Values[i], st)
					o := fv.info.Defs[n]
					if o == nil {
						continue
					}
					v = fv.convertTo(v, fv.typeOf(vs.Values[i]), o.Type(), st)
					st.vars[o] = Val{v.T, v.S, o.Type()}
				}
				continue
			}
			// var a, b = f()
			vals := fv.evalMulti(vs.Values[0], st, len(vs.Names))
			for i, n := range vs.Names {
				if o := fv.info.Defs[n]; o != nil && i < len(vals) {
					st.vars[o] = vals[i]
				}
			}
		}
		return st
	case *ast.IncDecStmt:
		cur := fv.eval(x.X, st)
		op := "+"
		if x.Tok == token.DEC {
			op = "-"
		}
		fv.assignTo(x.X, Val{sx(op, cur.T, "1"), cur.S, cur.GoT}, st)
		return st
	case *ast.IfStmt:
		return fv.execIf(x, st)
	case *ast.ForStmt:
		return fv.execFor(x, st)
	case *ast.RangeStmt:
		return fv.execRange(x, st)
	case *ast.SwitchStmt:
		return fv.execSwitch(x, st)
	case *ast.TypeSwitchStmt:
		return fv.execTypeSwitch(x, st)
	case *ast.ReturnStmt:
		return fv.execReturn(x, st)
	case *ast.BranchStmt:
		return fv.execBranch(x, st)
	case *ast.LabeledStmt:
		fv.pendingLabel = x.Label.Name
		return fv.exec(x.Stmt, st)
	case *ast.DeferStmt:
		if len(fv.frames) == 0 {
			fv.defers = append(fv.defers, x.Call)
			return st
		}
		fv.note("defer inside a loop or switch")
		return st
	case *ast.EmptyStmt:
		return st
	case *ast.GoStmt:
		fv.note("go statement")
		fv.havocAllHeaps(st)
		return st
	}
	fv.note("statement %T", s)
	fv.havocStmt(s, st)
	return st
}

// havocStmt forgets everything a statement outside the subset may change.
func (fv *FuncVC) havocStmt(s ast.Node, st *State) {
	for _, o := range assignedVars(fv.info, s) {
		if _, ok := st.vars[o]; ok {
			st.vars[o] = fv.havocVal(st, o.Name(), o.Type())
		}
	}
	fv.havocAllHeaps(st)
}

func (fv *FuncVC) execIf(x *ast.IfStmt, st *State) *State {
	if x.Init != nil {
		st = fv.exec(x.Init, st)
	}
	c := fv.eval(x.Cond, st)
	thenSt := st.withGuard(c.T)
	elseSt := st.withGuard(mkNot(c.T))
	thenSt = fv.execBlock(x.Body.List, thenSt)
	if x.Else != nil {
		elseSt = fv.exec(x.Else, elseSt)
	}
	return fv.nameGuard(fv.merge([]*State{thenSt, elseSt}))
}

// nameGuard abbreviates a long guard by a fresh boolean constant.
func (fv *FuncVC) nameGuard(st *State) *State {
	if len(st.guard) > 160 {
		g := fv.th.freshConst("g", SBoolS)
		fv.addFactRaw(mkEq(g, st.guard))
		st.guard = g
	}
	return st
}

func (fv *FuncVC) execBranch(x *ast.BranchStmt, st *State) *State {
	label := ""
	if x.Label != nil {
		label = x.Label.Name
	}
	switch x.Tok {
	case token.BREAK:
		for i := len(fv.frames) - 1; i >= 0; i-- {
			f := fv.frames[i]
			if label == "" || f.label == label {
				f.breaks = append(f.breaks, st)
				return fv.deadState()
			}
		}
	case token.CONTINUE:
		for i := len(fv.frames) - 1; i >= 0; i-- {
			f := fv.frames[i]
			if f.isLoop && (label == "" || f.label == label) {
				f.continues = append(f.continues, st)
				return fv.deadState()
			}
		}
	}
	fv.note("branch statement %s", x.Tok)
	return fv.deadState()
}

func (fv *FuncVC) execReturn(x *ast.ReturnStmt, st *State) *State {
	if fv.litMode {
		// body of a function literal swept on its own: only the safety of the result expressions matters
		for _, r := range x.Results {
			fv.eval(r, st)
		}
		return fv.deadState()
	}
	fv.retOrd++
	ret := fv.retOrd
	sig := fv.fi.Obj.Type().(*types.Signature)
	if fv.curSig != nil {
		sig = fv.curSig
	}
	if len(x.Results) > 0 {
		if len(x.Results) == sig.Results().Len() {
			vals := make([]Val, len(x.Results))
			for i, r := range x.Results {
				v := fv.eval(r, st)
				vals[i] = fv.convertTo(v, fv.typeOf(r), sig.Results().At(i).Type(), st)
			}
			for i := range vals {
				st.vars[fv.resNames[i]] = Val{vals[i].T, vals[i].S, sig.Results().At(i).Type()}
			}
		} else {
			vals := fv.evalMulti(x.Results[0], st, sig.Results().Len())
			for i := range vals {
				st.vars[fv.resNames[i]] = vals[i]
			}
		}
	}
	fv.finish(st, fmt.Sprintf("ret%d", ret))
	return fv.deadState()
}

// finish runs deferred calls and checks the postconditions at a function exit.
func (fv *FuncVC) finish(st *State, where string) {
	if st.dead() {
		return
	}
	saved := fv.frames
	fv.frames = nil
	for i := len(fv.defers) - 1; i >= 0; i-- {
		fv.evalCall(fv.defers[i], st)
	}
	fv.frames = saved
	if fv.fi.Contract != nil {
		fv.applyGhostSets(fv.fi.Contract, st, fv.specScope(fv.entry, fv.entry, false))
	}
	if fv.fi.Contract != nil && fv.mode == "full" {
		for i, c := range fv.fi.Contract.Ensures {
			g := fv.specBool(c.Expr, fv.specScope(st, fv.entry, true))
			fv.oblig(st, "post", fmt.Sprintf("post:%d@%s", i+1, where), c.Text, g)
		}
	}
	if fv.fi.Contract != nil && fv.mode == "full" {
		fv.frameObligations(st, where)
	}
	// cover: the exit is reachable (must be SAT)
	o := fv.oblig(st, "cover", "cover:"+where, "exit reachable", "false")
	if o != nil {
		o.ExpectSat = true
	}
}

func (fv *FuncVC) execAssign(x *ast.AssignStmt, st *State) *State {
	define := x.Tok == token.DEFINE
	if x.Tok != token.ASSIGN && x.Tok != token.DEFINE {
		// op-assign
		cur := fv.eval(x.Lhs[0], st)
		rhs := fv.eval(x.Rhs[0], st)
		var nv Val
		switch x.Tok {
		case token.ADD_ASSIGN:
			if cur.S == SStr {
				nv = Val{sx("cat", cur.T, rhs.T), SStr, cur.GoT}
			} else {
				nv = Val{sx("+", cur.T, rhs.T), cur.S, cur.GoT}
			}
		case token.SUB_ASSIGN:
			nv = Val{sx("-", cur.T, rhs.T), cur.S, cur.GoT}
		case token.MUL_ASSIGN:
			nv = Val{sx("*", cur.T, rhs.T), cur.S, cur.GoT}
		default:
			fv.note("assignment operator %s", x.Tok)
			nv = fv.havocVal(st, "opassign", cur.GoT)
		}
		fv.assignTo(x.Lhs[0], nv, st)
		return st
	}
	var vals []Val
	if len(x.Rhs) == 1 && len(x.Lhs) > 1 {
		vals = fv.evalMulti(x.Rhs[0], st, len(x.Lhs))
	} else {
		for i, r := range x.Rhs {
			v := fv.eval(r, st)
			var lt types.Type
			if id, ok := x.Lhs[i].(*ast.Ident); ok && id.Name == "_" {
				lt = nil
			} else if define {
				if id, ok := x.Lhs[i].(*ast.Ident); ok {
					if o := fv.info.ObjectOf(id); o != nil {
						lt = o.Type()
					}
				}
			} else {
				lt = fv.typeOf(x.Lhs[i])
			}
			if lt != nil {
				v = fv.convertTo(v, fv.typeOf(r), lt, st)
			}
			vals = append(vals, v)
		}
	}
	for i, l := range x.Lhs {
		if i >= len(vals) {
			break
		}
		if id, ok := l.(*ast.Ident); ok {
			if id.Name == "_" {
				continue
			}
			o := fv.info.ObjectOf(id)
			if o != nil {
				if _, isVar := o.(*types.Var); isVar {
					if _, local := st.vars[o]; local || define || o.Parent() != o.Pkg().Scope() {
						nv := fv.named(vals[i], o.Name())
						st.vars[o] = Val{nv.T, nv.S, o.Type()}
						continue
					}
					fv.note("assignment to package-level variable %s", id.Name)
					continue
				}
			}
		}
		fv.assignTo(l, vals[i], st)
	}
	return st
}

// evalMulti evaluates an expression producing n values (call, comma-ok forms).
func (fv *FuncVC) evalMulti(e ast.Expr, st *State, n int) []Val {
	switch x := e.(type) {
	case *ast.ParenExpr:
		return fv.evalMulti(x.X, st, n)
	case *ast.CallExpr:
		vs := fv.evalCall(x, st)
		for len(vs) < n {
			vs = append(vs, Val{"nil", SRef, nil})
		}
		return vs
	case *ast.TypeAssertExpr:
		v, ok := fv.typeAssert(x, st)
		T := fv.typeOf(x.Type)
		// when the assertion fails the value is the zero value
		return []Val{{mkIte(ok, v.T, fv.th.zero(T)), v.S, T}, {ok, SBoolS, types.Typ[types.Bool]}}
	case *ast.IndexExpr:
		xt := fv.typeOf(x.X)
		if mt, ok := types.Unalias(xt).Underlying().(*types.Map); ok {
			m := fv.eval(x.X, st)
			k := fv.eval(x.Index, st)
			k = fv.convertTo(k, fv.typeOf(x.Index), mt.Key(), st)
			v, has := fv.mapLookup(m, k, mt, st)
			return []Val{v, {has, SBoolS, types.Typ[types.Bool]}}
		}
	}
	fv.note("multi-value expression %s", fv.text(e))
	var out []Val
	tup, _ := fv.typeOf(e).(*types.Tuple)
	for i := 0; i < n; i++ {
		var t types.Type = types.Typ[types.Int]
		if tup != nil && i < tup.Len() {
			t = tup.At(i).Type()
		}
		out = append(out, fv.havocVal(st, "mv", t))
	}
	return out
}

// assignTo stores v into the location denoted by lhs.
func (fv *FuncVC) assignTo(lhs ast.Expr, v Val, st *State) {
	switch l := lhs.(type) {
	case *ast.ParenExpr:
		fv.assignTo(l.X, v, st)
	case *ast.Ident:
		if l.Name == "_" {
			return
		}
		o := fv.info.ObjectOf(l)
		if o == nil {
			return
		}
		if _, ok := st.vars[o]; !ok {
			if o.Parent() == o.Pkg().Scope() {
				fv.note("assignment to package-level variable %s", l.Name)
				return
			}
		}
		st.vars[o] = Val{v.T, v.S, o.Type()}
	case *ast.IndexExpr:
		xt := fv.typeOf(l.X)
		switch u := types.Unalias(xt).Underlying().(type) {
		case *types.Map:
			m := fv.eval(l.X, st)
			k := fv.eval(l.Index, st)
			k = fv.convertTo(k, fv.typeOf(l.Index), u.Key(), st)
			v = fv.convertTo(v, v.GoT, u.Elem(), st)
			fv.mapStore(m, k, v, u, st, fv.text(l))
		case *types.Slice, *types.Array:
			base := fv.eval(l.X, st)
			i := fv.eval(l.Index, st)
			n := fv.nextOrd("index")
			goal := mkAnd(sx("<=", "0", i.T), sx("<", i.T, sx("sl_len", base.T)))
			fv.oblig(st, "safe", fmt.Sprintf("safe:index@%d", n), "index "+fv.text(l), goal)
			fv.addFact(st, goal)
			et := elemType(xt)
			es := fv.th.sortOf(et)
			_ = es
			h := fv.declSliceHeapT(et)
			H := fv.getHeap(st, h)
			ref := sx("sl_ref", base.T)
			fv.setHeap(st, h, sx("store", H, ref, sx("store", sx("select", H, ref), i.T, v.T)))
		default:
			fv.note("index assignment %s", fv.text(l))
			fv.havocAllHeaps(st)
		}
	case *ast.SelectorExpr:
		sel := fv.info.Selections[l]
		if sel == nil || sel.Kind() != types.FieldVal {
			fv.note("assignment to %s", fv.text(l))
			fv.havocAllHeaps(st)
			return
		}
		fv.assignField(l.X, fv.typeOf(l.X), sel.Index(), v, st, fv.text(l))
	case *ast.StarExpr:
		p := fv.eval(l.X, st)
		n := fv.nextOrd("nilptr")
		fv.oblig(st, "safe", fmt.Sprintf("safe:nilptr@%d", n), "store through "+fv.text(l), mkNot(mkEq(p.T, "nil")))
		fv.addFact(st, mkNot(mkEq(p.T, "nil")))
		fv.guardedPointee(st, l.X, p)
		fv.storePointee(p, v, fv.typeOf(l), st)
	default:
		fv.note("assignment target %T", lhs)
		fv.havocAllHeaps(st)
	}
}

// assignField: base.<path> = v, where base is an addressable expression.
func (fv *FuncVC) assignField(baseExpr ast.Expr, bt types.Type, path []int, v Val, st *State, text string) {
	bt = types.Unalias(bt)
	if p, ok := bt.Underlying().(*types.Pointer); ok {
		base := fv.eval(baseExpr, st)
		stt, ok := p.Elem().Underlying().(*types.Struct)
		if !ok {
			fv.note("field store %s", text)
			fv.havocAllHeaps(st)
			return
		}
		n := fv.nextOrd("nilptr")
		fv.oblig(st, "safe", fmt.Sprintf("safe:nilptr@%d", n), "field store "+text, mkNot(mkEq(base.T, "nil")))
		fv.addFact(st, mkNot(mkEq(base.T, "nil")))
		f := stt.Field(path[0])
		ss := fv.th.sortOf(p.Elem())
		fs := fv.th.sortOf(f.Type())
		h := fv.declFieldHeap(ss, f.Name(), fs)
		fv.guardedAccess(st, p.Elem(), f.Name(), base, text)
		if len(path) == 1 {
			fv.guardedStore(st, p.Elem(), f.Name(), base, Val{sx("select", fv.getHeap(st, h), base.T), fs, f.Type()}, v, text)
			fv.setHeap(st, h, sx("store", fv.getHeap(st, h), base.T, v.T))
			return
		}
		// nested value field inside a heap struct
		cur := Val{sx("select", fv.getHeap(st, h), base.T), fs, f.Type()}
		nv := fv.updatePath(cur, f.Type(), path[1:], v, st, text)
		fv.setHeap(st, h, sx("store", fv.getHeap(st, h), base.T, nv.T))
		return
	}
	// value struct: rebuild and assign to the base location
	cur := fv.eval(baseExpr, st)
	nv := fv.updatePath(cur, bt, path, v, st, text)
	fv.assignTo(baseExpr, nv, st)
}

// updatePath returns cur with the field at path replaced by v (functional update of datatypes).
func (fv *FuncVC) updatePath(cur Val, t types.Type, path []int, v Val, st *State, text string) Val {
	t = types.Unalias(t)
	stt, ok := t.Underlying().(*types.Struct)
	if !ok {
		fv.note("nested field store through %s in %s", t, text)
		return fv.havocVal(st, "upd", t)
	}
	s := fv.th.sortOf(t)
	si := fv.th.structOf[s]
	fields := make([]string, len(si.Fields))
	for i, f := range si.Fields {
		fields[i] = sx(fv.th.fieldAcc(si.Name, f.Name), cur.T)
	}
	idx := path[0]
	if len(path) == 1 {
		fields[idx] = v.T
	} else {
		f := stt.Field(idx)
		sub := Val{fields[idx], fv.th.sortOf(f.Type()), f.Type()}
		fields[idx] = fv.updatePath(sub, f.Type(), path[1:], v, st, text).T
	}
	return Val{fv.th.mkStruct(s, fields), s, t}
}

func (fv *FuncVC) execSwitch(x *ast.SwitchStmt, st *State) *State {
	if x.Init != nil {
		st = fv.exec(x.Init, st)
	}
	var tag *Val
	var tagT types.Type
	if x.Tag != nil {
		v := fv.eval(x.Tag, st)
		tag = &v
		tagT = fv.typeOf(x.Tag)
	}
	frame := &jumpFrame{label: fv.pendingLabel}
	fv.pendingLabel = ""
	fv.frames = append(fv.frames, frame)
	var outs []*State
	remaining := st.clone()
	var defaultClause *ast.CaseClause
	for _, c := range x.Body.List {
		cc := c.(*ast.CaseClause)
		if cc.List == nil {
			defaultClause = cc
			continue
		}
		var conds []string
		for _, e := range cc.List {
			v := fv.eval(e, remaining)
			if tag != nil {
				a, b := fv.harmonise(*tag, v, tagT, fv.typeOf(e), remaining)
				conds = append(conds, fv.eqVals(a, b))
			} else {
				conds = append(conds, v.T)
			}
		}
		cond := mkOr(conds...)
		body := remaining.withGuard(cond)
		if hasFallthrough(cc.Body) {
			fv.note("fallthrough")
		}
		outs = append(outs, fv.execBlock(cc.Body, body))
		remaining = remaining.withGuard(mkNot(cond))
	}
	if defaultClause != nil {
		outs = append(outs, fv.execBlock(defaultClause.Body, remaining))
	} else {
		outs = append(outs, remaining)
	}
	fv.frames = fv.frames[:len(fv.frames)-1]
	outs = append(outs, frame.breaks...)
	return fv.nameGuard(fv.merge(outs))
}

func hasFallthrough(body []ast.Stmt) bool {
	if len(body) == 0 {
		return false
	}
	b, ok := body[len(body)-1].(*ast.BranchStmt)
	return ok && b.Tok == token.FALLTHROUGH
}

func (fv *FuncVC) execTypeSwitch(x *ast.TypeSwitchStmt, st *State) *State {
	if x.Init != nil {
		st = fv.exec(x.Init, st)
	}
	var subject ast.Expr
	bind := false
	switch a := x.Assign.(type) {
	case *ast.ExprStmt:
		subject = a.X.(*ast.TypeAssertExpr).X
	case *ast.AssignStmt:
		subject = a.Rhs[0].(*ast.TypeAssertExpr).X
		bind = true
	}
	sv := fv.eval(subject, st)
	frame := &jumpFrame{label: fv.pendingLabel}
	fv.pendingLabel = ""
	fv.frames = append(fv.frames, frame)
	var outs []*State
	remaining := st.clone()
	var defaultClause *ast.CaseClause
	for _, c := range x.Body.List {
		cc := c.(*ast.CaseClause)
		if cc.List == nil {
			defaultClause = cc
			continue
		}
		var conds []string
		var single Val
		for _, te := range cc.List {
			if id, ok := te.(*ast.Ident); ok && id.Name == "nil" {
				conds = append(conds, mkEq(sv.T, "nil"))
				single = sv
				continue
			}
			T := fv.typeOf(te)
			c, v := fv.typeTest(sv, T, remaining)
			conds = append(conds, c)
			single = v
		}
		cond := mkOr(conds...)
		body := remaining.withGuard(cond)
		if bind {
			if o := fv.info.Implicits[cc]; o != nil {
				if len(cc.List) == 1 {
					body.vars[o] = Val{single.T, single.S, o.Type()}
				} else {
					body.vars[o] = Val{sv.T, sv.S, o.Type()}
				}
			}
		}
		outs = append(outs, fv.execBlock(cc.Body, body))
		remaining = remaining.withGuard(mkNot(cond))
	}
	if defaultClause != nil {
		if bind {
			if o := fv.info.Implicits[defaultClause]; o != nil {
				remaining.vars[o] = Val{sv.T, sv.S, o.Type()}
			}
		}
		outs = append(outs, fv.execBlock(defaultClause.Body, remaining))
	} else {
		outs = append(outs, remaining)
	}
	fv.frames = fv.frames[:len(fv.frames)-1]
	outs = append(outs, frame.breaks...)
	return fv.nameGuard(fv.merge(outs))
}

// ---- syntactic helpers

// assignedVars lists the local variables assigned (not declared) within n.
func assignedVars(info *types.Info, n ast.Node) []types.Object {
	seen := map[types.Object]bool{}
	var out []types.Object
	add := func(e ast.Expr) {
		for {
			switch y := e.(type) {
			case *ast.ParenExpr:
				e = y.X
				continue
			case *ast.SelectorExpr:
				// assignment to a field of a value struct modifies the root variable; through a pointer it goes to the heap
				if tv, ok := info.Types[y.X]; ok && tv.Type != nil {
					if _, isPtr := types.Unalias(tv.Type).Underlying().(*types.Pointer); isPtr {
						return
					}
				}
				e = y.X
				continue
			case *ast.IndexExpr:
				// element stores go to the heap: the slice/map variable itself is unchanged
				return
			case *ast.StarExpr:
				return
			}
			break
		}
		if id, ok := e.(*ast.Ident); ok {
			if o := info.ObjectOf(id); o != nil {
				if _, isVar := o.(*types.Var); isVar && !seen[o] {
					seen[o] = true
					out = append(out, o)
				}
			}
		}
	}
	ast.Inspect(n, func(m ast.Node) bool {
		switch y := m.(type) {
		case *ast.AssignStmt:
			for _, l := range y.Lhs {
				add(l)
			}
		case *ast.IncDecStmt:
			add(y.X)
		case *ast.RangeStmt:
			if y.Tok == token.ASSIGN {
				if y.Key != nil {
					add(y.Key)
				}
				if y.Value != nil {
					add(y.Value)
				}
			}
		case *ast.CallExpr:
			// methods of a strings.Builder local update the modelled string
			if se, ok := y.Fun.(*ast.SelectorExpr); ok {
				if id, ok := se.X.(*ast.Ident); ok {
					if o := info.ObjectOf(id); o != nil && isBuilderType(o.Type()) {
						add(id)
					}
				}
			}
		case *ast.FuncLit:
			// closures may assign captured variables when called; handled where they are called
			return true
		}
		return true
	})
	return out
}

// frameObligations: objects allocated at entry and not named by the modifies clause keep their contents.
func (fv *FuncVC) frameObligations(st *State, where string) {
	locs := fv.modLocs(fv.fi.Contract.Modifies, fv.specScope(fv.entry, fv.entry, false))
	byHeap := map[string][]string{}
	whole := map[string]bool{}
	for _, l := range locs {
		if l.heap == "*" {
			return
		}
		if l.ref == "" {
			whole[l.heap] = true
		} else {
			byHeap[l.heap] = append(byHeap[l.heap], l.ref)
		}
	}
	allocEntry := fv.getHeap(fv.entry, "alloc")
	names := make([]string, 0, len(fv.heapSort))
	for h := range fv.heapSort {
		names = append(names, h)
	}
	sort.Strings(names)
	for _, h := range names {
		if h == "alloc" || whole[h] || (strings.HasPrefix(h, "G$") && fv.ownGhost(h)) {
			continue
		}
		if fv.isGuardedHeap(h) {
			continue // shared state protected by a mutex: unstable by nature, never framed
		}
		now, before := fv.getHeap(st, h), fv.getHeap(fv.entry, h)
		if now == before {
			continue
		}
		conds := []string{sx("select", allocEntry, "r")}
		if h == "G$runs" || h == "G$lasterr" {
			conds = nil // ghost counters keyed by command lines, not by allocated objects: every entry counts
		}
		for _, r := range byHeap[h] {
			conds = append(conds, mkNot(mkEq("r", r)))
		}
		goal := fmt.Sprintf("(forall ((r Ref)) (=> %s (= (select %s r) (select %s r))))", mkAnd(conds...), now, before)
		fv.oblig(st, "frame", fmt.Sprintf("frame:%s@%s", shortHeap(h), where), "only the locations in the modifies clause change ("+h+")", goal)
	}
}

func shortHeap(h string) string {
	h = strings.ReplaceAll(h, "github.com.benoitkugler.gomacro.", "")
	return h
}

// applyGhostSets: `ghostset name expr` — the ghost flag `name` of the object denoted by expr
// (evaluated in the entry state) is 1 from the exit on. Ghost flags are only ever written this way,
// so "flag(x) == 1" means "this function has been applied to x".
func (fv *FuncVC) applyGhostSets(fc *FuncContract, st *State, sc *SpecScope) {
	for _, gs := range fc.GhostSets {
		n, err := parseSpecExpr(gs[1])
		if err != nil {
			specFail("ghostset: %v", err)
		}
		v := fv.specEval(n, sc)
		h := "G$" + gs[0]
		fv.heapDecl(h, arraySort(SRef, SInt))
		fv.setHeap(st, h, sx("store", fv.getHeap(st, h), v.T, "1"))
	}
}

func (fv *FuncVC) ownGhost(h string) bool {
	for _, gs := range fv.fi.Contract.GhostSets {
		if "G$"+gs[0] == h {
			return true
		}
	}
	return false
}

func (fv *FuncVC) isGuardedHeap(h string) bool {
	for _, g := range fv.w.Guarded {
		if h == "F$"+sanitize(g.Struct)+"."+g.Field {
			return true
		}
	}
	return false
}
