/-
Lemma used by C19 (order independence of WriteDeclarations) and C11 (setImplements).

Two lists that are permutations of each other and both sorted (Pairwise) for a transitive
relation `le` that is antisymmetric on their elements are equal. For C19: `le a b` is
"key a ≤ key b" with key = (¬priority, ID); elements with equal keys have equal ID, hence equal
content by the property's hypothesis, and equal priority: they are equal declarations, so `le`
is antisymmetric on the list. Hence the sorted slice — and the text emitted from it — is the same
for every order in which the same declarations are supplied.
-/

theorem sorted_perm_unique {α : Type} (le : α → α → Prop)
    (l₁ l₂ : List α) (hp : l₁.Perm l₂)
    (s₁ : l₁.Pairwise le) (s₂ : l₂.Pairwise le)
    (anti : ∀ a b, a ∈ l₁ → b ∈ l₁ → le a b → le b a → a = b) : l₁ = l₂ :=
  hp.eq_of_pairwise (fun a b ha hb hab hba => anti a b ha (hp.symm.subset hb) hab hba) s₁ s₂
