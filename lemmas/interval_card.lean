/-
The two counting facts that govc's background theory assumes about `len(map)` (the cardinality of a finite
set of integer keys), used by C10 (setIsIota: "the values of the exported members are exactly 0..m").
`within S m`  : every element of S lies in {0..m};   `full S m` : every integer of {0..m} is in S.

  pigeonhole    : within S m ∧ card S = m+1  →  full S m
  interval_card : within S m ∧ full S m ∧ m ≥ -1  →  card S = m+1

Sets of keys of a Go map are finite: `Finset ℤ`.
-/
import Mathlib.Data.Finset.Card
import Mathlib.Data.Int.Interval
import Mathlib.Order.Interval.Finset.Defs

open Finset

def within (S : Finset ℤ) (m : ℤ) : Prop := ∀ x ∈ S, 0 ≤ x ∧ x ≤ m
def full (S : Finset ℤ) (m : ℤ) : Prop := ∀ x : ℤ, 0 ≤ x → x ≤ m → x ∈ S

theorem card_Icc_zero (m : ℤ) (hm : -1 ≤ m) : ((Finset.Icc (0:ℤ) m).card : ℤ) = m + 1 := by
  rw [Int.card_Icc]
  have : 0 ≤ m + 1 - 0 := by omega
  rw [Int.toNat_of_nonneg this]
  omega

theorem within_subset {S : Finset ℤ} {m : ℤ} (h : within S m) : S ⊆ Finset.Icc 0 m := by
  intro x hx
  exact Finset.mem_Icc.mpr (h x hx)

theorem full_superset {S : Finset ℤ} {m : ℤ} (h : full S m) : Finset.Icc 0 m ⊆ S := by
  intro x hx
  have := Finset.mem_Icc.mp hx
  exact h x this.1 this.2

/-- a subset of {0..m} with m+1 elements is {0..m} -/
theorem pigeonhole (S : Finset ℤ) (m : ℤ) (hw : within S m) (hc : (S.card : ℤ) = m + 1) : full S m := by
  have hm : -1 ≤ m := by
    have : (0:ℤ) ≤ S.card := Int.natCast_nonneg _
    omega
  have hsub := within_subset hw
  have hcard : (Finset.Icc (0:ℤ) m).card ≤ S.card := by
    have h1 := card_Icc_zero m hm
    have : ((Finset.Icc (0:ℤ) m).card : ℤ) ≤ (S.card : ℤ) := by omega
    exact_mod_cast this
  have heq : S = Finset.Icc 0 m := Finset.eq_of_subset_of_card_le hsub hcard
  intro x h0 hxm
  rw [heq]
  exact Finset.mem_Icc.mpr ⟨h0, hxm⟩

/-- the interval {0..m} has m+1 elements -/
theorem interval_card (S : Finset ℤ) (m : ℤ) (hm : -1 ≤ m) (hw : within S m) (hf : full S m) :
    (S.card : ℤ) = m + 1 := by
  have heq : S = Finset.Icc 0 m := Finset.Subset.antisymm (within_subset hw) (full_superset hf)
  rw [heq]
  exact card_Icc_zero m hm
